------------------------------ MODULE MemStore ------------------------------
(***************************************************************************)
(* The in-memory session store at lock granularity (internal/oidc/         *)
(* memory.go): every operation takes the store's mutex, works on the map   *)
(* and releases it.  The design choice is the constant SetHoldsLock: when  *)
(* FALSE the `set` helper copies the session under the lock, releases it,  *)
(* runs the setter on the copy and swaps the copy in under the lock again  *)
(* (seeded defect C12-m2).  TLC checks that every concurrent history of N  *)
(* operations (every choice of operations, every interleaving of their     *)
(* critical sections) ends in a state, and returns results, that SOME      *)
(* sequential order of the N operations produces (serializability; the     *)
(* real store is checked for linearizability of longer recorded histories  *)
(* by LinTrace.tla, and for unlocked accesses by the race build).          *)
(***************************************************************************)
EXTENDS Integers, Sequences, FiniteSets, TLC

CONSTANTS SetHoldsLock, N

Ops == {"SetTok", "SetAuth", "GetAuth", "GetTok", "ClearAuth", "Remove"}
None == [ex |-> FALSE, auth |-> 0, tok |-> 0]
Threads == 1..N

VARIABLES s,      \* the session under the single id used (ids do not interact: one map entry each)
          mu,     \* lock holder (0 = free)
          pc, op, snap, res, init

vars == <<s, mu, pc, op, snap, res, init>>

\* atomic reference semantics
Apply(o, t, x) ==
  CASE o = "SetTok"    -> <<[ex |-> TRUE, auth |-> x.auth, tok |-> t], 0>>
    [] o = "SetAuth"   -> <<[ex |-> TRUE, auth |-> t, tok |-> x.tok], 0>>
    [] o = "GetAuth"   -> <<x, x.auth>>
    [] o = "GetTok"    -> <<x, x.tok>>
    [] o = "ClearAuth" -> <<IF x.ex THEN [x EXCEPT !.auth = 0] ELSE x, 0>>
    [] o = "Remove"    -> <<None, 0>>

Starts == {None, [ex |-> TRUE, auth |-> 9, tok |-> 0], [ex |-> TRUE, auth |-> 0, tok |-> 9]}

Init == /\ s \in Starts /\ init = s /\ mu = 0
        /\ op \in [Threads -> Ops] /\ pc = [t \in Threads |-> "start"]
        /\ snap = [t \in Threads |-> None] /\ res = [t \in Threads |-> 0]

IsSet(t) == op[t] \in {"SetTok", "SetAuth"}

\* the whole operation under the lock
Whole(t) == /\ pc[t] = "start" /\ mu = 0 /\ (SetHoldsLock \/ ~IsSet(t))
            /\ LET r == Apply(op[t], t, s) IN s' = r[1] /\ res' = [res EXCEPT ![t] = r[2]]
            /\ pc' = [pc EXCEPT ![t] = "done"] /\ UNCHANGED <<mu, op, snap, init>>

\* the split variant of set: snapshot under the lock ...
Snapshot(t) == /\ pc[t] = "start" /\ mu = 0 /\ ~SetHoldsLock /\ IsSet(t)
               /\ snap' = [snap EXCEPT ![t] = s] /\ pc' = [pc EXCEPT ![t] = "swap"] /\ UNCHANGED <<s, mu, op, res, init>>
\* ... and swap the updated copy in under the lock
Swap(t) == /\ pc[t] = "swap" /\ mu = 0
           /\ s' = Apply(op[t], t, snap[t])[1] /\ pc' = [pc EXCEPT ![t] = "done"] /\ UNCHANGED <<mu, op, snap, res, init>>

Next == \E t \in Threads : Whole(t) \/ Snapshot(t) \/ Swap(t)
Spec == Init /\ [][Next]_vars

\* every sequential order of the N operations from the initial session
RECURSIVE Run(_, _, _)
Run(order, k, acc) ==
  IF k > N THEN acc
  ELSE LET t == order[k]
           r == Apply(op[t], t, acc.s)
       IN Run(order, k + 1, [s |-> r[1], res |-> [acc.res EXCEPT ![t] = r[2]]])
Serializable ==
  (\A t \in Threads : pc[t] = "done") =>
     \E p \in Permutations(Threads) :
        LET q == Run(p, 1, [s |-> init, res |-> [t \in Threads |-> 0]]) IN s = q.s /\ res = q.res
\* the lock is never needed by a finished operation, and every operation finishes (no state without a successor
\* before all are done): checked as deadlock freedom with the terminal states excluded
Done == \A t \in Threads : pc[t] = "done"
Terminating == Done \/ ENABLED Next
=============================================================================
