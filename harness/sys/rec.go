package zzverif

import (
	"bufio"
	"crypto/sha256"
	"encoding/base64"
	"encoding/hex"
	"encoding/json"
	"fmt"
	"net/url"
	"os"
	"strings"
	"sync"
)

// recorder writes one NDJSON event per observable step. Concrete random strings
// are renamed to symbols in order of first appearance, per category.
type recorder struct {
	mu   sync.Mutex
	w    *bufio.Writer
	f    *os.File
	n    int
	syms map[string]string // "cat\x00value" -> symbol
	cnt  map[string]int
	// secrets: marker value -> class (clientSecret, verifier, refreshToken, accessToken, idToken)
	secrets map[string]string
	// verifiers known (for S256 challenge recognition)
	challenges map[string]string // challenge -> verifier symbol
}

func newRecorder(path string) (*recorder, error) {
	f, err := os.Create(path)
	if err != nil {
		return nil, err
	}
	r := &recorder{f: f, w: bufio.NewWriterSize(f, 1<<20)}
	r.resetSyms()
	return r, nil
}

func (r *recorder) resetSyms() {
	r.syms = map[string]string{}
	r.cnt = map[string]int{}
	r.secrets = map[string]string{}
	r.challenges = map[string]string{}
}

func (r *recorder) close() {
	r.mu.Lock()
	defer r.mu.Unlock()
	_ = r.w.Flush()
	_ = r.f.Close()
}

func (r *recorder) emit(ev map[string]any) {
	r.mu.Lock()
	defer r.mu.Unlock()
	r.n++
	if abs, ok := ev["lin"].(int); ok && abs > 0 {
		// a parked store call: how many lines back from this event it parked (independent of where a trace is cut for validation)
		ev["lin"] = r.n - abs
	}
	b, err := json.Marshal(ev)
	if err != nil {
		panic(err)
	}
	_, _ = r.w.Write(b)
	_ = r.w.WriteByte('\n')
}

// sym returns the symbol of value in category cat, assigning a new one on first sight.
func (r *recorder) sym(cat, value string) string {
	r.mu.Lock()
	defer r.mu.Unlock()
	return r.symLocked(cat, value)
}

func (r *recorder) symLocked(cat, value string) string {
	if value == "" {
		return "none"
	}
	k := cat + "\x00" + value
	if s, ok := r.syms[k]; ok {
		return s
	}
	r.cnt[cat]++
	s := fmt.Sprintf("%s%d", cat, r.cnt[cat])
	r.syms[k] = s
	return s
}

// lookup returns the symbol if the value is already known in the category.
func (r *recorder) lookup(cat, value string) (string, bool) {
	r.mu.Lock()
	defer r.mu.Unlock()
	s, ok := r.syms[cat+"\x00"+value]
	return s, ok
}

// bind forces a given symbol for a value (used for values the harness itself makes).
func (r *recorder) bind(cat, value, symbol string) {
	r.mu.Lock()
	defer r.mu.Unlock()
	r.syms[cat+"\x00"+value] = symbol
}

func (r *recorder) addSecret(value, class string) {
	if value == "" {
		return
	}
	r.mu.Lock()
	defer r.mu.Unlock()
	r.secrets[value] = class
}

func (r *recorder) noteVerifier(v string) string {
	s := r.sym("v", v)
	h := sha256.Sum256([]byte(v))
	r.mu.Lock()
	r.challenges[base64.RawURLEncoding.EncodeToString(h[:])] = s
	r.mu.Unlock()
	r.addSecret(v, "verifier")
	return s
}

func (r *recorder) challengeSym(ch string) string {
	r.mu.Lock()
	defer r.mu.Unlock()
	if s, ok := r.challenges[ch]; ok {
		return "S256(" + s + ")"
	}
	return "ch:unknown"
}

// leaks scans a serialised answer for every registered secret in the encodings
// the service could plausibly apply. It returns the sorted list of classes found.
func (r *recorder) leaks(serialised string, allow map[string]bool) []string {
	r.mu.Lock()
	defer r.mu.Unlock()
	found := map[string]bool{}
	for v, class := range r.secrets {
		if allow[v] {
			continue
		}
		forms := []string{
			v,
			url.QueryEscape(v),
			url.PathEscape(v),
			base64.StdEncoding.EncodeToString([]byte(v)),
			base64.RawStdEncoding.EncodeToString([]byte(v)),
			base64.URLEncoding.EncodeToString([]byte(v)),
			base64.RawURLEncoding.EncodeToString([]byte(v)),
			hex.EncodeToString([]byte(v)),
		}
		for _, f := range forms {
			if len(f) >= 8 && strings.Contains(serialised, f) {
				found[class] = true
				break
			}
		}
	}
	out := []string{}
	for _, c := range []string{"clientSecret", "verifier", "refreshToken", "accessToken", "idToken"} {
		if found[c] {
			out = append(out, c)
		}
	}
	return out
}
