----------------------------- MODULE ConfigOps -----------------------------
(***************************************************************************)
(* C17: what loading a configuration document must do, stated over an      *)
(* abstract document: a default OIDC section (optional) and chains of      *)
(* filters (mock / oidc / oidc_override / empty), each OIDC section being  *)
(* a record of field classes.  Concrete values carry the tag of the place  *)
(* they were written in (D default, O1/O2.. override, P1.. plain) so that  *)
(* the merged result shows where every value came from.                    *)
(***************************************************************************)
EXTENDS Integers, Sequences, FiniteSets, TLC

Merge(r1, r2) == [k \in DOMAIN r1 \cup DOMAIN r2 |-> IF k \in DOMAIN r2 THEN r2[k] ELSE r1[k]]
Nil == [x \in {} |-> 0]

Fields == {"ep", "cb", "lo", "cid", "sec", "hdr", "sc"}
Classes(f) ==
  CASE f = "ep"  -> {"absent", "explicit", "discovery", "partial", "noToken", "emptyFetcher", "emptyJwks"}
    [] f = "cb"  -> {"absent", "ok", "root", "rootQuery", "noPath", "unparsable", "sameAsLoD"}
    [] f = "lo"  -> {"absent", "ok", "rootPath", "sameAsCb", "sameAsCbD"}
    [] f = "cid" -> {"absent", "ok", "colon"}
    [] f = "sec" -> {"absent", "literal", "ref", "refNoName"}
    [] f = "hdr" -> {"absent", "ok", "headerOnly", "preambleOnly"}
    [] f = "sc"  -> {"absent", "empty", "profile", "openidX", "containsWord", "otherCase"}

Valid  == [ep |-> "explicit", cb |-> "ok", lo |-> "ok", cid |-> "ok", sec |-> "literal", hdr |-> "ok", sc |-> "absent"]
Absent == [f \in Fields |-> "absent"]

\* ---- concrete JSON of one OIDC section written at place T -----------------------------------------
EpJ(c, T) == CASE c = "explicit" -> [authorization_uri |-> "https://idp-" \o T \o ".test/authorize", token_uri |-> "https://idp-" \o T \o ".test/token", jwks |-> "{\"keys\":[]}"]
               [] c = "discovery" -> [configuration_uri |-> "https://idp-" \o T \o ".test/.well-known/openid-configuration"]
               [] c = "partial" -> [authorization_uri |-> "https://idp-" \o T \o ".test/authorize"]
               \* everything but the token endpoint
               [] c = "noToken" -> [authorization_uri |-> "https://idp-" \o T \o ".test/authorize", jwks |-> "{\"keys\":[]}"]
               \* both endpoints but no usable key source: a fetcher without URI / an empty static key set
               [] c = "emptyFetcher" -> [authorization_uri |-> "https://idp-" \o T \o ".test/authorize", token_uri |-> "https://idp-" \o T \o ".test/token", jwks_fetcher |-> [periodic_fetch_interval_sec |-> 60]]
               [] c = "emptyJwks" -> [authorization_uri |-> "https://idp-" \o T \o ".test/authorize", token_uri |-> "https://idp-" \o T \o ".test/token", jwks |-> ""]
               [] OTHER -> Nil
CbJ(c, T) == CASE c = "ok" -> [callback_uri |-> "https://app.test/cb-" \o T]
               [] c = "root" -> [callback_uri |-> "https://app.test/"]
               [] c = "rootQuery" -> [callback_uri |-> "https://app.test/?source=idp-" \o T]      \* the root path, with a query
               [] c = "noPath" -> [callback_uri |-> "https://app.test"]
               [] c = "unparsable" -> [callback_uri |-> "://app-" \o T]
               [] c = "sameAsLoD" -> [callback_uri |-> "https://app.test/logout-D"]      \* the path of the DEFAULT section's logout
               [] OTHER -> Nil
LoJ(c, T) == CASE c = "ok" -> [logout |-> [path |-> "/logout-" \o T, redirect_uri |-> "https://idp-" \o T \o ".test/end"]]
               [] c = "rootPath" -> [logout |-> [path |-> "/", redirect_uri |-> "https://idp-" \o T \o ".test/end"]]
               [] c = "sameAsCb" -> [logout |-> [path |-> "/cb-" \o T, redirect_uri |-> "https://idp-" \o T \o ".test/end"]]
               [] c = "sameAsCbD" -> [logout |-> [path |-> "/cb-D", redirect_uri |-> "https://idp-" \o T \o ".test/end"]]   \* the DEFAULT section's callback path
               [] OTHER -> Nil
CidJ(c, T) == CASE c = "ok" -> [client_id |-> "client-" \o T] [] c = "colon" -> [client_id |-> "client:" \o T] [] OTHER -> Nil
SecJ(c, T) == CASE c = "literal" -> [client_secret |-> "secret-" \o T]
                [] c = "ref" -> [client_secret_ref |-> [name |-> "k8s-" \o T]]
                [] c = "refNoName" -> [client_secret_ref |-> [namespace |-> "ns"]]
                [] OTHER -> Nil
HdrJ(c, T) == CASE c = "ok" -> [id_token |-> [header |-> "x-id-" \o T, preamble |-> "Pre" \o T]]
                [] c = "headerOnly" -> [id_token |-> [header |-> "x-id-" \o T]]
                [] c = "preambleOnly" -> [id_token |-> [preamble |-> "Pre" \o T]]
                [] OTHER -> Nil
ScJ(c, T) == CASE c = "empty" -> [scopes |-> <<>>] [] c = "profile" -> [scopes |-> <<"profile-" \o T>>] [] c = "openidX" -> [scopes |-> <<"openid", "x-" \o T>>]
               [] c = "containsWord" -> [scopes |-> <<"myopenid-" \o T, "https://api.example.com/openid.read">>]   \* the word, but not the scope
               [] c = "otherCase" -> [scopes |-> <<"OpenID", "profile-" \o T, "OPENID">>]                            \* scope values are case-sensitive (RFC 6749 3.3)
               [] OTHER -> Nil

\* verifMark keeps the rendering a JSON object even when every field is absent; the driver strips it before loading
OidcJ(fc, T) == Merge([verifMark |-> TRUE], Merge(Merge(Merge(Merge(Merge(Merge(EpJ(fc.ep, T), CbJ(fc.cb, T)), LoJ(fc.lo, T)), CidJ(fc.cid, T)), SecJ(fc.sec, T)), HdrJ(fc.hdr, T)), ScJ(fc.sc, T)))

FilterJ(flt) == CASE flt.type = "mock" -> [mock |-> [allow |-> TRUE]]
                  [] flt.type = "oidc" -> [oidc |-> OidcJ(flt.f, flt.tag)]
                  [] flt.type = "override" -> [oidc_override |-> OidcJ(flt.f, flt.tag)]
                  [] OTHER -> [verifMark |-> TRUE]
DocJ(doc) ==
  LET chains == [i \in DOMAIN doc.chains |-> [name |-> "chain" \o ToString(i), filters |-> [j \in DOMAIN doc.chains[i] |-> FilterJ(doc.chains[i][j])]]]
      base == [listen_address |-> "127.0.0.1", listen_port |-> 10003, log_level |-> "info", chains |-> chains]
  IN IF doc.def.present THEN Merge(base, [default_oidc_config |-> OidcJ(doc.def.f, "D")]) ELSE base

\* ---- the merged (effective) classes and value tags of an OIDC filter ---------------------------------
\* per field: <<class, tag>> after "override if set, else default"
\* Nested messages and groups of fields merge member-wise, which matters in two places: an override that sets only the
\* authorization endpoint over a default with all endpoints (or discovery) leaves a complete set, and a secret reference
\* that sets only the namespace over a default reference keeps the default's name.
Eff(doc, flt, f) ==
  IF flt.type = "override" /\ doc.def.present
  THEN IF f = "ep" /\ flt.f.ep \in {"partial", "noToken"} /\ doc.def.f.ep \in {"explicit", "discovery"} THEN <<doc.def.f.ep, IF doc.def.f.ep = "explicit" THEN flt.tag ELSE "D">>
       ELSE IF f = "ep" /\ flt.f.ep = "noToken" /\ doc.def.f.ep \in {"emptyFetcher", "emptyJwks"} THEN <<"explicit", flt.tag>>   \* the default supplies the token endpoint, the override the keys
       ELSE IF f = "ep" /\ flt.f.ep \in {"emptyFetcher", "emptyJwks", "partial", "noToken"} /\ doc.def.f.ep = "discovery" THEN <<"discovery", "D">>   \* discovery supplies the keys
       ELSE IF f = "ep" /\ flt.f.ep = "emptyJwks" /\ doc.def.f.ep = "explicit" THEN <<"explicit", flt.tag>>   \* an empty string does not override the default's static keys
       ELSE IF f = "sec" /\ flt.f.sec = "refNoName" /\ doc.def.f.sec = "ref" THEN <<"ref", "D">>
       ELSE IF flt.f[f] # "absent" THEN <<flt.f[f], flt.tag>> ELSE <<doc.def.f[f], "D">>
  ELSE <<flt.f[f], flt.tag>>

\* header names compare without case (the driver reports the loaded name in lower case)
LC(t) == CASE t = "P1" -> "p1" [] t = "P2" -> "p2" [] t = "O1" -> "o1" [] t = "O2" -> "o2" [] t = "D" -> "d" [] OTHER -> t
\* nested messages merge member-wise: header and preamble separately
EffHeader(doc, flt) ==
  LET o == flt.f.hdr  d == IF doc.def.present THEN doc.def.f.hdr ELSE "absent" IN
  IF flt.type = "override" /\ doc.def.present
  THEN IF o \in {"ok", "headerOnly"} THEN "x-id-" \o LC(flt.tag) ELSE IF d \in {"ok", "headerOnly"} THEN "x-id-d" ELSE ""
  ELSE IF o \in {"ok", "headerOnly"} THEN "x-id-" \o LC(flt.tag) ELSE ""
EffPreamble(doc, flt) ==
  LET o == flt.f.hdr  d == IF doc.def.present THEN doc.def.f.hdr ELSE "absent" IN
  IF flt.type = "override" /\ doc.def.present
  THEN IF o \in {"ok", "preambleOnly"} THEN "Pre" \o flt.tag ELSE IF d \in {"ok", "preambleOnly"} THEN "PreD" ELSE ""
  ELSE IF o \in {"ok", "preambleOnly"} THEN "Pre" \o flt.tag ELSE ""

CbPath(e) == CASE e[1] = "ok" -> "/cb-" \o e[2] [] e[1] \in {"root", "rootQuery"} -> "/" [] e[1] = "sameAsLoD" -> "/logout-D" [] OTHER -> ""
LoPath(e) == CASE e[1] = "ok" -> "/logout-" \o e[2] [] e[1] = "rootPath" -> "/" [] e[1] = "sameAsCb" -> "/cb-" \o e[2] [] e[1] = "sameAsCbD" -> "/cb-D" [] OTHER -> ""

IsOidc(flt) == flt.type \in {"oidc", "override"}
OidcFilters(doc) == {<<i, j>> \in (DOMAIN doc.chains) \X (1..3) : j \in DOMAIN doc.chains[i] /\ IsOidc(doc.chains[i][j])}

\* ---- what the statement requires to be rejected -----------------------------------------------------
FilterMustReject(doc, flt) ==
  \/ Eff(doc, flt, "cid")[1] \in {"absent", "colon"}
  \/ Eff(doc, flt, "sec")[1] \in {"absent", "refNoName"}
  \/ EffHeader(doc, flt) = ""
  \/ Eff(doc, flt, "ep")[1] \in {"absent", "partial", "noToken", "emptyFetcher", "emptyJwks"}
  \/ Eff(doc, flt, "cb")[1] \in {"absent", "root", "rootQuery", "noPath", "unparsable"}
  \/ Eff(doc, flt, "lo")[1] = "rootPath"
  \/ (Eff(doc, flt, "lo")[1] # "absent" /\ LoPath(Eff(doc, flt, "lo")) = CbPath(Eff(doc, flt, "cb")))

\* a section with a class the loader must refuse wherever it is written, even if it is overridden later
SectionBad(fc) == fc.cb \in {"root", "rootQuery", "noPath", "unparsable"}

MustReject(doc) ==
  \/ doc.chains = <<>>
  \/ \E i \in DOMAIN doc.chains : Cardinality({j \in DOMAIN doc.chains[i] : IsOidc(doc.chains[i][j])}) > 1
  \/ \E i \in DOMAIN doc.chains : \E j \in DOMAIN doc.chains[i] :
        LET flt == doc.chains[i][j] IN
          \/ (flt.type = "override" /\ ~doc.def.present)
          \/ (flt.type = "oidc" /\ doc.def.present)
          \/ (IsOidc(flt) /\ FilterMustReject(doc, flt))
=============================================================================
