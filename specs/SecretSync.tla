----------------------------- MODULE SecretSync -----------------------------
(***************************************************************************)
(* C19: propagation of Kubernetes Secrets to the filters that reference    *)
(* them.  The model holds the Secrets of the controller's namespace, the   *)
(* Secrets of another namespace, the filter -> reference mapping (a        *)
(* constant) and, as the specification's expectation, the client secret    *)
(* every filter must hold.  One operation sequence per transition of the   *)
(* state graph is printed (as for SessionMap) and replayed against the     *)
(* real SecretController.Reconcile with controller-runtime's fake client.  *)
(***************************************************************************)
EXTENDS Integers, Sequences, FiniteSets, TLC, Json

CONSTANTS RefCase,     \* which filter -> reference mapping (see Refs)
          Names,       \* secret names that exist in the world (referenced and unrelated)
          Vals, MaxLen, Export,
          Local        \* TRUE: only events of the controller's own namespace (used to enumerate ALL histories up to MaxLen)

\* per filter: "lit" (literal secret in the configuration) or the name of the referenced Secret
Refs == CASE RefCase = 1 -> <<"n1", "n1", "lit">>
          [] RefCase = 2 -> <<"n1", "n2", "lit">>
          [] RefCase = 3 -> <<"n1", "n2", "n1">>
          [] RefCase = 4 -> <<"lit", "lit", "lit">>
          [] RefCase = 5 -> <<"n2", "lit", "n2">>

VARIABLES k8s, other, sec, hist
Filters == DOMAIN Refs
NoSecret == [ex |-> FALSE, v |-> "", key |-> "none", deleting |-> FALSE]

Init == /\ k8s = [n \in Names |-> NoSecret] /\ other = [n \in Names |-> ""]
        /\ sec = [f \in Filters |-> IF Refs[f] = "lit" THEN "literal" ELSE "unset"]
        /\ hist = <<>>

Ev(op, n, v) == [op |-> op, name |-> n, v |-> v]
Log(e) == hist' = Append(hist, e)

Set(n, v)        == k8s[n].deleting = FALSE /\ k8s' = [k8s EXCEPT ![n] = [ex |-> TRUE, v |-> v, key |-> "ok", deleting |-> FALSE]] /\ Log(Ev("set", n, v)) /\ UNCHANGED <<other, sec>>
DropKey(n)       == k8s[n].ex /\ ~k8s[n].deleting /\ k8s[n].key = "ok" /\ k8s' = [k8s EXCEPT ![n].key = "missing"] /\ Log(Ev("dropKey", n, "")) /\ UNCHANGED <<other, sec>>
EmptyKey(n)      == k8s[n].ex /\ ~k8s[n].deleting /\ k8s[n].key = "ok" /\ k8s' = [k8s EXCEPT ![n].key = "empty"] /\ Log(Ev("emptyKey", n, "")) /\ UNCHANGED <<other, sec>>
MarkDeleting(n)  == k8s[n].ex /\ ~k8s[n].deleting /\ k8s' = [k8s EXCEPT ![n].deleting = TRUE] /\ Log(Ev("markDeleting", n, "")) /\ UNCHANGED <<other, sec>>
\* a Secret held back by a finalizer can still be updated while it is being deleted
SetWhileDeleting(n, v) == k8s[n].ex /\ k8s[n].deleting /\ k8s' = [k8s EXCEPT ![n].v = v, ![n].key = "ok"] /\ Log(Ev("setWhileDeleting", n, v)) /\ UNCHANGED <<other, sec>>
Delete(n)        == k8s[n].ex /\ k8s' = [k8s EXCEPT ![n] = NoSecret] /\ Log(Ev("delete", n, "")) /\ UNCHANGED <<other, sec>>
SetOther(n, v)   == other' = [other EXCEPT ![n] = v] /\ Log(Ev("setOtherNs", n, v)) /\ UNCHANGED <<k8s, sec>>

\* a reconcile of the Secret in the controller's namespace: the statement of C19
Reconcile(n) ==
  /\ sec' = [f \in Filters |-> IF Refs[f] = n /\ k8s[n].ex /\ ~k8s[n].deleting /\ k8s[n].key = "ok" THEN k8s[n].v ELSE sec[f]]
  /\ Log(Ev("reconcile", n, "")) /\ UNCHANGED <<k8s, other>>
\* a reconcile request for a Secret of another namespace never changes anything
ReconcileOther(n) == Log(Ev("reconcileOtherNs", n, "")) /\ UNCHANGED <<k8s, other, sec>>

Next ==
  /\ Len(hist) < MaxLen
  /\ \E n \in Names : \/ \E v \in Vals : Set(n, v) \/ (~Local /\ SetOther(n, v)) \/ SetWhileDeleting(n, v)
                      \/ DropKey(n) \/ (~Local /\ EmptyKey(n)) \/ MarkDeleting(n) \/ Delete(n) \/ Reconcile(n) \/ (~Local /\ ReconcileOther(n))
Spec == Init /\ [][Next]_<<k8s, other, sec, hist>>
view == <<k8s, other, sec>>

\* only referencing filters ever change, and only to a value their Secret held
OnlyReferencing == \A f \in Filters : Refs[f] = "lit" => sec[f] = "literal"
\* random walks (TLC -simulate): whole histories including steps that do not change the abstract state, which matter
\* when the implementation keeps state of its own (an index, a cache) that the abstract state does not have
\* (with Local and no VIEW: every history of MaxLen events whose last event is a reconcile - the implementation may keep
\* state of its own that only a particular history brings out)
PrintFull == (Export /\ Len(hist) = MaxLen /\ (Local => hist[MaxLen].op = "reconcile")) => PrintT(<<"SCN", ToJson([refs |-> Refs, events |-> hist])>>)
PrintTransition == Export => PrintT(<<"SCN", ToJson([refs |-> Refs, events |-> hist'])>>)
=============================================================================
