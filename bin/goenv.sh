# source me: Go environment for building harnesses against /repo offline
unset GOTOOLCHAIN GOSUMDB
export GOFLAGS=-mod=mod GOPROXY=off GONOSUMCHECK=1 GONOSUMDB=* GOFLAGS=-mod=mod
