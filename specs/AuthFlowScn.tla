---------------------------- MODULE AuthFlowScn ----------------------------
(***************************************************************************)
(* Scenario families over AuthFlow: the exploration starts from a prepared *)
(* state (a session that has logged in, possibly with expired tokens, or a *)
(* login that is half way), `hist` already holds the steps that lead       *)
(* there, and only the requests of the family are admitted.  Every         *)
(* quiescent behaviour is printed as a scenario (AuthFlow!ExportInv).      *)
(***************************************************************************)
EXTENDS AuthFlow

CONSTANTS
  Prepared,     \* "fresh" | "expired" | "expiredNoRt" | "midLogin" | "none"
  Target,       \* the session every admitted request carries (0 = per AuthFlow)
  MaxLogouts,   \* logout requests admitted
  MaxApps,      \* application requests admitted
  MaxCallbacks, \* callback requests admitted
  AllowTick, AllowAuthz

S(c)  == StepRec(c, "none", "", "")
SA(c, a) == StepRec(c, "none", a, "")
SJ(c) == StepRec(c, "none", "", "ok")

LoginPrefix(rt) ==
  << [op |-> "start", c |-> CS(1), kind |-> "app", f |-> FRef(1), cookie |-> "none", st |-> "none", code |-> "none"],
     S(1),
     [op |-> "authz", sid |-> 1],
     [op |-> "start", c |-> CS(2), kind |-> "callback", f |-> FRef(1), cookie |-> "sid:1", st |-> "sid:1", code |-> "code:1"],
     S(2), SA(2, IF rt THEN "ok" ELSE "okNoRt"), SJ(2), S(2), S(2) >>

HalfPrefix ==
  << [op |-> "start", c |-> CS(1), kind |-> "app", f |-> FRef(1), cookie |-> "none", st |-> "none", code |-> "none"],
     S(1),
     [op |-> "authz", sid |-> 1] >>

Done(c, o) == [kind |-> "none", f |-> 0, sid |-> 0, st |-> 0, code |-> 0, tok |-> NoTok, new |-> NoTok, afterRm |-> FALSE, faulted |-> FALSE, stored |-> 0]

InitPrepared ==
  LET loggedIn == Prepared \in {"fresh", "expired", "expiredNoRt"}
      rt == Prepared # "expiredNoRt"
      t  == IF Prepared \in {"expired", "expiredNoRt"} THEN TokLife + 1 ELSE 0
  IN
  /\ now = t
  /\ store = [s \in Sids \cup {Forged} |->
                IF s # 1 THEN NoSess
                ELSE IF loggedIn THEN [ex |-> TRUE, auth |-> NoAuth, tok |-> [ex |-> TRUE, gen |-> 1, exp |-> TokLife, rt |-> IF rt THEN 1 ELSE 0], owner |-> 1]
                ELSE [ex |-> TRUE, auth |-> [ex |-> TRUE, state |-> 1], tok |-> NoTok, owner |-> 1]]
  /\ nextSid = 2 /\ nextTok = (IF loggedIn THEN 2 ELSE 1) /\ nextCode = 2
  /\ codes = [k \in Codes |-> IF k = 1 THEN [sid |-> 1, used |-> loggedIn] ELSE [sid |-> 0, used |-> FALSE]]
  /\ rtValid = IF loggedIn /\ rt THEN {1} ELSE {}
  /\ minted = [g \in 1..MaxTok |-> IF g = 1 /\ loggedIn THEN 1 ELSE 0]
  /\ pcs = [c \in Checks |-> IF c = 1 \/ (c = 2 /\ loggedIn) THEN "done" ELSE "idle"]
  /\ loc = [c \in Checks |-> Done(c, "none")]
  /\ out = [c \in Checks |-> IF c = 1 THEN "authorize" ELSE IF c = 2 /\ loggedIn THEN "app" ELSE "none"]
  /\ cookies = {1} /\ creator = [s \in Sids |-> IF s = 1 THEN 1 ELSE 0] /\ removed = {} /\ dead = {}
  /\ faults = 0 /\ okLog = {} /\ exLog = {}
  /\ hist = IF loggedIn THEN LoginPrefix(rt) \o (IF t > 0 THEN [i \in 1..t |-> [op |-> "tick", d |-> 1]] ELSE <<>>)
            ELSE HalfPrefix

Count(kind) == Cardinality({c \in Checks : pcs[c] # "idle" /\ c > (IF Prepared = "midLogin" THEN 1 ELSE 2) /\ loc[c].kind = kind})
\* loc is reset when a check is done in the view only; keep a ghost count in hist instead
Started(kind) == Cardinality({i \in DOMAIN hist : hist[i].op = "start" /\ hist[i].kind = kind /\ i > (IF Prepared = "midLogin" THEN 3 ELSE 9)})

Admit(c, kind, f, sid, st, code) ==
  /\ Target # 0 => sid = Target
  /\ kind = "logout"   => Started("logout") < MaxLogouts
  /\ kind = "app"      => Started("app") < MaxApps
  /\ kind = "callback" => Started("callback") < MaxCallbacks /\ st = Target /\ code = 1
  /\ Start(c, kind, f, sid, st, code)

NextScn ==
  \/ \E c \in Checks, kind \in Kinds, f \in Filters, sid \in Sids \cup {NoSid, Forged},
        st \in Sids \cup {NoSid, Forged}, code \in 0..(MaxCode + 1) : Admit(c, kind, f, sid, st, code)
  \/ \E c \in Checks : Step(c)
  \/ AllowAuthz /\ \E s \in Sids : Authorize(s)
  \/ AllowTick /\ Tick

SpecScn == InitPrepared /\ [][NextScn]_vars

\* only print behaviours in which every admitted request has been issued
Complete == Started("logout") = MaxLogouts /\ Started("app") = MaxApps /\ Started("callback") = MaxCallbacks

ExportScn ==
  (Export /\ Quiescent /\ Complete) =>
     PrintT(<<"SCN", ToJson([steps |-> hist, out |-> Outs,
                              viol |-> [dead |-> ~LoggedOutStaysDead, okAfterLogout |-> ~NoOkAfterLogout,
                                        creator |-> ~HonouredOnlyByCreator]])>>)
=============================================================================
