package zzverif

// Executable attack witnesses for Entropy.tla (C06), run against the real oidc.NewRandomGenerator(), constructed
// exactly as ExtAuthZFilter.Check does (one generator per request, values drawn in the handler's order).

import (
	"encoding/json"
	"fmt"
	"math"
	"math/rand"
	"os"
	"runtime"
	"strings"
	"sync"
	"sync/atomic"
	"time"

	"github.com/istio-ecosystem/authservice/internal/oidc"
)

const genCharset = "abcdefghijklmnopqrstuvwxyzABCDEFGHIJKLMNOPQRSTUVWXYZ0123456789"

type loginValues struct {
	sid, nonce, state, verifier string
	t0, t1                      time.Time
}

// drawLogin builds a generator and draws the values in the order redirectToIDP does.
func drawLogin() loginValues {
	t0 := time.Now()
	g := oidc.NewRandomGenerator()
	t1 := time.Now()
	return loginValues{sid: g.GenerateSessionID(), nonce: g.GenerateNonce(), state: g.GenerateState(), verifier: g.GenerateCodeVerifier(), t0: t0, t1: t1}
}

func genFrom(r *rand.Rand, n int) string {
	b := make([]byte, n)
	for i := range b {
		b[i] = genCharset[r.Intn(len(genCharset))]
	}
	return string(b)
}

// witnessTimeSeed: DeriveFromTimeSeed. The attacker knows state, nonce and the request time within +-window and searches
// the math/rand (v1) seeds in that window, in every draw order of the three values.
func witnessTimeSeed(lv loginValues, window time.Duration) (bool, int64) {
	lo, hi := lv.t0.Add(-window).UnixNano(), lv.t1.Add(window).UnixNano()
	workers := runtime.NumCPU()
	var found atomic.Bool
	var tried atomic.Int64
	var wg sync.WaitGroup
	chunk := (hi - lo + int64(workers)) / int64(workers)
	for w := 0; w < workers; w++ {
		wg.Add(1)
		go func(a, b int64) {
			defer wg.Done()
			src := rand.NewSource(1)
			r := rand.New(src)
			for s := a; s < b && !found.Load(); s++ {
				src.Seed(s)
				v1, v2, v3 := genFrom(r, 64), genFrom(r, 32), genFrom(r, 32)
				tried.Add(1)
				// the handler's order is sid, nonce, state; accept any order in which the disclosed pair reproduces
				if (v2 == lv.nonce && v3 == lv.state && v1 == lv.sid) || (v2 == lv.state && v3 == lv.nonce && v1 == lv.sid) {
					found.Store(true)
					return
				}
				// other orders: 32,32,64 and 32,64,32
				src.Seed(s)
				a1, a2 := genFrom(r, 32), genFrom(r, 32)
				a3 := genFrom(r, 64)
				if ((a1 == lv.nonce && a2 == lv.state) || (a1 == lv.state && a2 == lv.nonce)) && a3 == lv.sid {
					found.Store(true)
					return
				}
			}
		}(lo+int64(w)*chunk, min64(lo+int64(w+1)*chunk, hi))
	}
	wg.Wait()
	return found.Load(), tried.Load()
}

func min64(a, b int64) int64 {
	if a < b {
		return a
	}
	return b
}

// witnessCorrelated: DeriveFromPublic within one login and across consecutive logins.
func witnessCorrelated(ls []loginValues) (bool, string) {
	for i, l := range ls {
		pub := []string{l.state, l.nonce}
		for _, p := range pub {
			if p != "" && len(l.sid) >= 16 && (strings.Contains(l.sid, p) || strings.Contains(p, l.sid[:16])) {
				return true, "sid-contains-public-value"
			}
		}
		if l.state == l.nonce {
			return true, "state-equals-nonce"
		}
		if i > 0 {
			prev := ls[i-1]
			if l.sid == prev.sid || l.state == prev.state || l.nonce == prev.nonce || l.sid == prev.state || l.sid == prev.nonce {
				return true, "value-repeats-across-logins"
			}
			// common prefix / suffix of 12 or more characters between logins
			if len(l.sid) >= 12 && len(prev.sid) >= 12 && (l.sid[:12] == prev.sid[:12] || l.sid[len(l.sid)-12:] == prev.sid[len(prev.sid)-12:]) {
				return true, "sids-share-prefix-or-suffix"
			}
		}
	}
	return false, ""
}

// witnessCollide: two generators built at (almost) the same instant emit the same identifier.
func witnessCollide(n int) (bool, int) {
	workers := runtime.NumCPU()
	per := n / workers
	res := make([][]string, workers)
	var wg sync.WaitGroup
	for w := 0; w < workers; w++ {
		wg.Add(1)
		go func(w int) {
			defer wg.Done()
			out := make([]string, 0, per)
			for i := 0; i < per; i++ {
				out = append(out, oidc.NewRandomGenerator().GenerateSessionID())
			}
			res[w] = out
		}(w)
	}
	wg.Wait()
	seen := make(map[string]struct{}, n)
	dups := 0
	for _, l := range res {
		for _, s := range l {
			if _, ok := seen[s]; ok {
				dups++
			}
			seen[s] = struct{}{}
		}
	}
	return dups > 0, dups
}

// witnessShape: identifiers that are too short or draw from a visibly reduced alphabet / fixed positions.
func witnessShape(ls []loginValues) (bool, string) {
	posChars := make([]map[byte]bool, 64)
	for i := range posChars {
		posChars[i] = map[byte]bool{}
	}
	for _, l := range ls {
		if len(l.sid) < 32 || len(l.state) < 16 || len(l.nonce) < 16 || len(l.verifier) < 43 {
			return true, fmt.Sprintf("too-short:%d/%d/%d/%d", len(l.sid), len(l.state), len(l.nonce), len(l.verifier))
		}
		for i := 0; i < len(l.sid) && i < 64; i++ {
			posChars[i][l.sid[i]] = true
		}
	}
	// enough positions must vary widely (fixed separators or version characters, as in a UUID, are fine)
	varying := 0
	for i := 0; i < 64; i++ {
		if len(posChars[i]) >= 12 {
			varying++
		}
	}
	if len(ls) >= 2000 && varying < 24 {
		return true, fmt.Sprintf("only-%d-positions-of-the-session-id-vary", varying)
	}
	// how much of a value can differ between logins at all: whoever holds one issued value knows every position that never
	// changes, and is left with a search over the others. (Constant prefixes, separators, version characters cost nothing;
	// a timestamp with a constant tail, as in a version-1 UUID, leaves a few dozen bits.)
	if len(ls) >= 2000 {
		for name, get := range map[string]func(loginValues) string{"session-id": func(l loginValues) string { return l.sid },
			"state": func(l loginValues) string { return l.state }, "nonce": func(l loginValues) string { return l.nonce }} {
			if bits := varyingBits(ls, get); bits < 64 {
				return true, fmt.Sprintf("%s-varies-in-at-most-%d-bits-between-logins", name, int(bits))
			}
		}
	}
	return false, ""
}

// varyingBits is an upper bound of what distinguishes one value from another: the sum over all positions of log2 of the
// number of different characters seen there.
func varyingBits(ls []loginValues, get func(loginValues) string) float64 {
	var pos []map[byte]bool
	for _, l := range ls {
		v := get(l)
		for len(pos) < len(v) {
			pos = append(pos, map[byte]bool{})
		}
		for i := 0; i < len(v); i++ {
			pos[i][v[i]] = true
		}
	}
	bits := 0.0
	for _, m := range pos {
		if len(m) > 1 {
			bits += math.Log2(float64(len(m)))
		}
	}
	return bits
}

func runEntropy(out string, thorough bool) error {
	rec, err := newRecorder(out)
	if err != nil {
		return err
	}
	defer rec.close()
	emit := func(id, action, what string, derived bool, extra map[string]any) {
		ev := map[string]any{"ev": "witness", "id": id, "action": action, "what": what, "derived": derived}
		for k, v := range extra {
			ev[k] = v
		}
		rec.emit(ev)
	}
	// W1 DeriveFromTimeSeed
	window := 500 * time.Microsecond
	rounds := 3
	if thorough {
		window, rounds = 5*time.Millisecond, 6
	}
	for i := 0; i < rounds; i++ {
		lv := drawLogin()
		ok, tried := witnessTimeSeed(lv, window)
		emit(fmt.Sprintf("timeSeed/%d", i), "DeriveFromTimeSeed", "sid-from-state-nonce-and-request-time", ok, map[string]any{"seedsTried": tried, "windowNs": int64(window)})
	}
	// W2 DeriveFromPublic / sibling values
	n := 3000
	ls := make([]loginValues, 0, n)
	for i := 0; i < n; i++ {
		ls = append(ls, drawLogin())
	}
	ok, how := witnessCorrelated(ls)
	emit("correlated", "DeriveFromPublic", ifs(ok, how, "none"), ok, map[string]any{"logins": n})
	ok, how = witnessShape(ls)
	emit("shape", "DeriveFromPublic", ifs(ok, how, "none"), ok, map[string]any{"logins": n})
	// W3 Collide
	total := 200000
	if thorough {
		total = 2000000
	}
	ok, dups := witnessCollide(total)
	emit("collide", "DeriveFromSibling", ifs(ok, "duplicate-session-ids-among-concurrent-generators", "none"), ok, map[string]any{"generators": total, "duplicates": dups})
	// W4 concurrent logins through one server instance
	workers, per := 16, 400
	if thorough {
		per = 4000
	}
	tmp, err := os.MkdirTemp("", "verif-entropy")
	if err != nil {
		return err
	}
	defer os.RemoveAll(tmp)
	ok, how, n2, err := witnessConcurrentServer(tmp, workers, per)
	if err != nil {
		return err
	}
	emit("concurrentServer", "DeriveFromSibling", how, ok, map[string]any{"logins": n2, "workers": workers})
	// W4b relations between the values of logins answered one after the other by a real server
	seqLogins, err := serverLogins(tmp, 400)
	if err != nil {
		return err
	}
	ok, how = witnessEncodedPublic(seqLogins)
	emit("encodedPublic", "DeriveFromPublic", how, ok, map[string]any{"logins": len(seqLogins)})
	ok, how = witnessEncodedTime(seqLogins)
	emit("encodedTime", "DeriveFromTimeSeed", how, ok, map[string]any{"logins": len(seqLogins)})
	ok, how = witnessHashSuccessor(seqLogins)
	emit("hashSuccessor", "DeriveFromSibling", how, ok, map[string]any{"logins": len(seqLogins)})
	// W5 slow entropy source
	derived, applies, what := witnessSlowSource()
	emit("slowSource", "DeriveWhenSourceSlow", what, derived, map[string]any{"verdictApplies": applies})
	// W6 restart
	self := os.Getenv("VERIF_SELF")
	if self == "" {
		self = os.Args[0]
	}
	derived, applies, what = witnessFailingSource(self)
	emit("failingSource", "DeriveWhenSourceSlow", what, derived, map[string]any{"verdictApplies": applies})
	ok, how, err = witnessRestart(self)
	if err != nil {
		return err
	}
	emit("restart", "DeriveFromEarlierRun", how, ok, map[string]any{"processes": 2})
	return nil
}

var _ = json.Marshal
var _ = os.Getenv
