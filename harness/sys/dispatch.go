package zzverif

// Dispatch driver (C07, C08): rule sets / chain lists enumerated by TLC are loaded into a real ExtAuthZFilter and
// Check is called for every target / header map; the verdict vectors are logged for DispatchTrace.tla.

import (
	"bufio"
	"context"
	"encoding/json"
	"fmt"
	"math/rand"
	"os"
	"path/filepath"
	"reflect"
	"strings"
	"sync"
	"sync/atomic"

	envoy "github.com/envoyproxy/go-control-plane/envoy/service/auth/v3"
	"google.golang.org/protobuf/encoding/protojson"

	configv1 "github.com/istio-ecosystem/authservice/config/gen/go/v1"
	oidcv1 "github.com/istio-ecosystem/authservice/config/gen/go/v1/oidc"
	"github.com/istio-ecosystem/authservice/internal"
	"github.com/istio-ecosystem/authservice/internal/oidc"
	"github.com/istio-ecosystem/authservice/internal/server"
)

type dPat struct {
	Kind string   `json:"kind"`
	Lit  []string `json:"lit"`
}
type dRule struct {
	Excl []dPat `json:"excl"`
	Incl []dPat `json:"incl"`
}
type dChain struct {
	Crit     string   `json:"crit"`
	Hdr      string   `json:"hdr"`
	HdrLower string   `json:"hdrLower"`
	Val      []string `json:"val"`
	Filters  []string `json:"filters"`
}
type dCase struct {
	ID             string     `json:"id"`
	Rules          []dRule    `json:"rules"`
	Chains         []dChain   `json:"chains"`
	AllowUnmatched bool       `json:"allowUnmatched"`
	DupNames       bool       `json:"dupNames"`
	Own            [][]string `json:"own"` // C07 random cases: their own targets
	Kind           string     `json:"kind"`
}

func patJSON(p dPat) map[string]any {
	lit := strings.Join(p.Lit, "")
	switch p.Kind {
	case "exact", "prefix", "suffix":
		return map[string]any{p.Kind: lit}
	case "reContains":
		return map[string]any{"regex": lit}
	case "rePrefix":
		return map[string]any{"regex": "^" + lit}
	case "reSuffix":
		return map[string]any{"regex": lit + "$"}
	case "reExact":
		return map[string]any{"regex": "^" + lit + "$"}
	case "reInvalid":
		return map[string]any{"regex": "("}
	}
	panic("pattern kind " + p.Kind)
}

// countingFactory hands out stores that count the operations made on them: an OIDC filter that was reached by a plain
// request shows by what it does with its session store (how it obtains the store is its own business).
type countingFactory struct {
	real  oidc.SessionStoreFactory
	calls *atomic.Int64
}

func (c *countingFactory) Get(cfg *oidcv1.OIDCConfig) oidc.SessionStore {
	st := c.real.Get(cfg)
	if st == nil {
		return nil
	}
	return &countingStore{SessionStore: st, calls: c.calls}
}

type countingStore struct {
	oidc.SessionStore
	calls *atomic.Int64
}

func (c *countingStore) SetTokenResponse(ctx context.Context, id string, t *oidc.TokenResponse) error {
	c.calls.Add(1)
	return c.SessionStore.SetTokenResponse(ctx, id, t)
}
func (c *countingStore) GetTokenResponse(ctx context.Context, id string) (*oidc.TokenResponse, error) {
	c.calls.Add(1)
	return c.SessionStore.GetTokenResponse(ctx, id)
}
func (c *countingStore) SetAuthorizationState(ctx context.Context, id string, a *oidc.AuthorizationState) error {
	c.calls.Add(1)
	return c.SessionStore.SetAuthorizationState(ctx, id, a)
}
func (c *countingStore) GetAuthorizationState(ctx context.Context, id string) (*oidc.AuthorizationState, error) {
	c.calls.Add(1)
	return c.SessionStore.GetAuthorizationState(ctx, id)
}
func (c *countingStore) ClearAuthorizationState(ctx context.Context, id string) error {
	c.calls.Add(1)
	return c.SessionStore.ClearAuthorizationState(ctx, id)
}
func (c *countingStore) RemoveSession(ctx context.Context, id string) error {
	c.calls.Add(1)
	return c.SessionStore.RemoveSession(ctx, id)
}

const staticOIDC = `{"authorization_uri":"https://idp.example/authorize","token_uri":"https://idp.example/token","callback_uri":"https://app.test/cb",
 "jwks":"{\"keys\":[]}","client_id":"c","client_secret":"s","scopes":["openid"],"id_token":{"header":"authorization","preamble":"Bearer"}}`

// loadDispatchConfig loads the document through the real configuration loader (file -> LocalConfigFile.Validate);
// documents the loader cannot accept by construction (no chains at all) are decoded directly.
func loadDispatchConfig(doc map[string]any, tmp string) (*configv1.Config, error) {
	doc["listen_address"], doc["listen_port"], doc["log_level"] = "127.0.0.1", 10003, "error"
	b, _ := json.Marshal(doc)
	if chains, _ := doc["chains"].([]any); len(chains) > 0 && tmp != "" {
		p := filepath.Join(tmp, "dispatch-config.json")
		if err := os.WriteFile(p, b, 0o600); err != nil {
			return nil, err
		}
		cf := &internal.LocalConfigFile{}
		if err := cf.FlagSet().Parse([]string{"--config-path", p}); err != nil {
			return nil, err
		}
		if err := cf.Validate(); err != nil {
			return nil, fmt.Errorf("loader rejected a dispatch configuration: %w", err)
		}
		return &cf.Config, nil
	}
	cfg := &configv1.Config{}
	if err := protojson.Unmarshal(b, cfg); err != nil {
		return nil, err
	}
	return cfg, nil
}

// newFilter assembles the service the way cmd/main.go does: every unit is constructed around the configuration object
// while it is still EMPTY, the configuration is loaded into that very object afterwards, then the units' PreRun steps run.
// (A unit that copies something out of the configuration when it is constructed keeps the empty value.)
func newFilter(cfg *configv1.Config) (*server.ExtAuthZFilter, *atomic.Int64, error) {
	ctx := context.Background()
	late := &configv1.Config{}
	pool := internal.NewTLSConfigPool(ctx)
	fac := oidc.NewSessionStoreFactory(late)
	calls := &atomic.Int64{}
	jw := oidc.NewJWKSProvider(late, pool)
	flt := server.NewExtAuthZFilter(late, pool, jw, &countingFactory{real: fac, calls: calls})
	fillConfig(late, cfg) // "the configuration file is loaded"
	if pr, ok := any(jw).(interface{ PreRun() error }); ok {
		_ = pr.PreRun() // (the key provider has no serving loop to start here: these cases use static key sets)
	}
	if err := fac.PreRun(); err != nil {
		return nil, nil, err
	}
	return flt, calls, nil
}

// fillConfig makes dst the loaded configuration src member by member (as reading the file into the object does): what
// the loader shares between chains or filters stays shared - a deep copy would quietly undo such aliasing.
func fillConfig(dst, src *configv1.Config) {
	d, s := reflect.ValueOf(dst).Elem(), reflect.ValueOf(src).Elem()
	for i := 0; i < d.NumField(); i++ {
		if d.Type().Field(i).PkgPath == "" { // exported members only (the generated bookkeeping stays dst's own)
			d.Field(i).Set(s.Field(i))
		}
	}
}

func dispatchReq(path string, hdrs map[string]string) *envoy.CheckRequest {
	if hdrs == nil {
		hdrs = map[string]string{}
	}
	return &envoy.CheckRequest{Attributes: &envoy.AttributeContext{Request: &envoy.AttributeContext_Request{
		Http: &envoy.AttributeContext_HttpRequest{Method: "GET", Scheme: "https", Host: "app.test", Path: path, Headers: hdrs}}}}
}

var c08Inputs = []map[string]string{
	{}, {"x-t": "a"}, {"x-t": "ab"}, {"x-t": "b"}, {"x-t": ""}, {"x-other": "a"}, {"x-t": "a", "x-other": "ab"}, {"x-t": "abc"},
	// the header value is compared as a whole: lists, blanks and case are not interpreted
	{"x-t": "b,a"}, {"x-t": "a,b"}, {"x-t": " a"}, {"x-t": "a "}, {"x-t": "A"}, {"x-t": "b, a"},
	// requests an OIDC filter denies with other codes than "unauthenticated": a callback without code (with and without the chain header)
	{"~shape": "callbackNoCode"}, {"~shape": "callbackNoCode", "x-t": "a"}, {"~shape": "callbackNoQuery", "x-t": "ab"},
}

func chars(s string) []any {
	out := []any{}
	for _, r := range s {
		out = append(out, string(r))
	}
	return out
}

func runDispatchFile(in, out, targetsFile, tmp string) (int, error) {
	f, err := os.Open(in)
	if err != nil {
		return 0, err
	}
	defer f.Close()
	rec, err := newRecorder(out)
	if err != nil {
		return 0, err
	}
	defer rec.close()
	var targets [][]string
	if targetsFile != "" {
		b, err := os.ReadFile(targetsFile)
		if err != nil {
			return 0, err
		}
		if err := json.Unmarshal(b, &targets); err != nil {
			return 0, err
		}
		tl := []any{}
		for _, t := range targets {
			tl = append(tl, chars(strings.Join(t, "")))
		}
		rec.emit(map[string]any{"ev": "targets", "list": tl})
	}
	il := []any{}
	for _, h := range c08Inputs {
		m := map[string]any{}
		for k, v := range h {
			m[k] = chars(v)
		}
		il = append(il, m)
	}
	rec.emit(map[string]any{"ev": "inputs", "list": il})

	sc := bufio.NewScanner(f)
	sc.Buffer(make([]byte, 1<<20), 1<<26)
	n := 0
	ctx := context.Background()
	for sc.Scan() {
		line := strings.TrimSpace(sc.Text())
		if line == "" {
			continue
		}
		var c dCase
		if err := json.Unmarshal([]byte(line), &c); err != nil {
			return n, err
		}
		n++
		if c.ID == "" {
			c.ID = fmt.Sprintf("case%d", n)
		}
		if c.Kind == "c08" || c.Chains != nil && c.Rules == nil {
			chains := []any{}
			for i, ch := range c.Chains {
				fl := []any{}
				for _, k := range ch.Filters {
					switch k {
					case "allow":
						fl = append(fl, map[string]any{"mock": map[string]any{"allow": true}})
					case "deny":
						fl = append(fl, map[string]any{"mock": map[string]any{"allow": false}})
					case "broken":
						// an OIDC filter whose provider cannot be discovered: nothing listens on the port
						var o map[string]any
						_ = json.Unmarshal([]byte(staticOIDC), &o)
						delete(o, "authorization_uri")
						delete(o, "token_uri")
						delete(o, "jwks")
						o["configuration_uri"] = "http://127.0.0.1:1/.well-known/openid-configuration"
						fl = append(fl, map[string]any{"oidc": o})
					default:
						var o map[string]any
						_ = json.Unmarshal([]byte(staticOIDC), &o)
						fl = append(fl, map[string]any{"oidc": o})
					}
				}
				name := fmt.Sprintf("chain%d", i)
				if c.DupNames {
					name = "chain" // chain names need not be unique
				}
				cd := map[string]any{"name": name, "filters": fl}
				switch ch.Crit {
				case "eq":
					cd["match"] = map[string]any{"header": ch.Hdr, "equality": strings.Join(ch.Val, "")}
				case "prefix":
					cd["match"] = map[string]any{"header": ch.Hdr, "prefix": strings.Join(ch.Val, "")}
				}
				chains = append(chains, cd)
			}
			cfg, err := loadDispatchConfig(map[string]any{"chains": chains, "allow_unmatched_requests": c.AllowUnmatched}, tmp)
			if err != nil && c.DupNames {
				// a loader may refuse chains that share a name (rejecting is always allowed): the case does not apply
				rec.emit(map[string]any{"ev": "dskip", "id": c.ID, "why": "loader rejects equal chain names"})
				continue
			}
			if err != nil {
				return n, fmt.Errorf("%s: %w", c.ID, err)
			}
			flt, calls, err := newFilter(cfg)
			if err != nil {
				return n, err
			}
			results := []any{}
			order := append([]map[string]string{}, c08Inputs...)
			for _, h := range order {
				before := calls.Load()
				hh := map[string]string{}
				path := "/x"
				for k, v := range h {
					if k == "~shape" {
						// the callback of the static OIDC filter, presented with a session cookie and without an authorization code
						path = "/cb?state=s"
						if v == "callbackNoQuery" {
							path = "/cb"
						}
						hh["cookie"] = "__Host-authservice-session-id-cookie=0123456789abcdef0123456789abcdef"
						continue
					}
					hh[k] = v
				}
				resp, err := flt.Check(ctx, dispatchReq(path, hh))
				o := "error"
				if err == nil && resp != nil {
					switch {
					case resp.GetStatus().GetCode() == 0:
						o = "ok"
					case resp.GetDeniedResponse() != nil:
						o = "oidc" // the OIDC filter's denials carry an answer for the browser (login redirect, malformed callback), whatever their status code
					case resp.GetStatus().GetCode() == 7:
						o = "deny" // the mock filter's denial (and "no chain matched") is a bare status
					default:
						o = fmt.Sprintf("code%d", resp.GetStatus().GetCode())
					}
				}
				reached := 0
				if calls.Load() > before {
					reached = 1
				}
				if _, shaped := h["~shape"]; shaped {
					reached = -1 // a malformed callback is denied before any store is used: whether the filter was reached does not show
				}
				results = append(results, map[string]any{"outcome": o, "oidc": reached})
			}
			chl := []any{}
			for _, ch := range c.Chains {
				chl = append(chl, map[string]any{"crit": ch.Crit, "hdr": ch.Hdr, "hdrLower": ch.HdrLower, "val": chars(strings.Join(ch.Val, "")), "filters": strs(ch.Filters)})
			}
			rec.emit(map[string]any{"ev": "c08", "id": c.ID, "chains": chl, "allowUnmatched": c.AllowUnmatched, "results": results})
			continue
		}
		// C07
		rules := []any{}
		for _, r := range c.Rules {
			rd := map[string]any{}
			ex, in := []any{}, []any{}
			for _, p := range r.Excl {
				ex = append(ex, patJSON(p))
			}
			for _, p := range r.Incl {
				in = append(in, patJSON(p))
			}
			if len(ex) > 0 {
				rd["excluded_paths"] = ex
			}
			if len(in) > 0 {
				rd["included_paths"] = in
			}
			rules = append(rules, rd)
		}
		doc := map[string]any{"chains": []any{map[string]any{"name": "deny", "filters": []any{map[string]any{"mock": map[string]any{"allow": false}}}}}}
		if len(rules) > 0 {
			doc["trigger_rules"] = rules
		}
		cfg, err := loadDispatchConfig(doc, tmp)
		if err != nil && hasInvalidRegex(c.Rules) {
			// a loader may refuse a trigger rule whose regular expression does not compile: the case does not apply
			rec.emit(map[string]any{"ev": "dskip", "id": c.ID, "why": "loader rejects an invalid regular expression"})
			continue
		}
		if err != nil {
			return n, fmt.Errorf("%s: %w", c.ID, err)
		}
		flt, _, err := newFilter(cfg)
		if err != nil {
			return n, err
		}
		ts := targets
		own := []any{}
		if len(c.Own) > 0 {
			ts = c.Own
			for _, t := range c.Own {
				own = append(own, chars(strings.Join(t, "")))
			}
		}
		verdict := func(f *server.ExtAuthZFilter, path string) (v int) {
			defer func() {
				if r := recover(); r != nil {
					v = 2 // a crash is no decision at all: it differs from every decision the sequential pass made
				}
			}()
			resp, err := f.Check(ctx, dispatchReq(path, nil))
			if err == nil && resp != nil && resp.GetStatus().GetCode() == 0 {
				return 0
			}
			return 1
		}
		// first, on an instance of its own: every target requested by several clients at once (same path, different queries);
		// the decision is a function of the path, so it cannot depend on who asked first
		conc := -1
		var mixed [][]int
		if fltC, _, err := newFilter(cfg); err == nil {
			const clients = 4
			// (1) every target by several clients at once; (2) several DIFFERENT targets at once - judged below against the
			// decisions of the sequential pass: what one request asks for cannot leak into the decision for another
			concRes := make([]int, len(ts))
			for i, t := range ts {
				path := strings.Join(t, "")
				res := make([]int, clients)
				var wg sync.WaitGroup
				start := make(chan struct{})
				for g := 0; g < clients; g++ {
					wg.Add(1)
					go func(g int) {
						defer wg.Done()
						<-start
						res[g] = verdict(fltC, path)
					}(g)
				}
				close(start)
				wg.Wait()
				for g := 1; g < clients; g++ {
					if res[g] != res[0] && conc < 0 {
						conc = i + 1
					}
				}
			}
			for round := 0; round < 3; round++ {
				var wg sync.WaitGroup
				start := make(chan struct{})
				for i := range ts {
					wg.Add(1)
					go func(i int) {
						defer wg.Done()
						<-start
						concRes[i] = verdict(fltC, strings.Join(ts[i], ""))
					}(i)
				}
				close(start)
				wg.Wait()
				mixed = append(mixed, append([]int{}, concRes...))
			}
		}
		verdicts := []any{}
		for _, t := range ts {
			verdicts = append(verdicts, verdict(flt, strings.Join(t, "")))
		}
		for _, m := range mixed {
			for i := range m {
				if i < len(verdicts) && m[i] != verdicts[i].(int) && conc < 0 {
					conc = i + 1
				}
			}
		}
		// the decision is a function of the path alone: the same targets once more with another method, another authority and
		// the headers proxies and scripts add (some of which name other paths) must get the same decisions
		envDiff := -1
		for i, t := range ts {
			req := dispatchReq(strings.Join(t, ""), map[string]string{"x-envoy-original-path": "/healthz?probe=1", "x-original-url": "/public/x.css",
				"x-rewrite-url": "/static/site.css", "x-forwarded-proto": "http", "x-requested-with": "XMLHttpRequest", "origin": "https://evil.example",
				"access-control-request-method": "GET", "referer": "https://app.test/public/index.html", ":path": "/public/index.html"})
			h := req.Attributes.Request.Http
			h.Method, h.Host, h.Scheme = []string{"POST", "OPTIONS", "HEAD", "DELETE"}[i%4], "other.test:8443", "http"
			v := 1
			if resp, err := flt.Check(ctx, req); err == nil && resp != nil && resp.GetStatus().GetCode() == 0 {
				v = 0
			}
			if v != verdicts[i].(int) && envDiff < 0 {
				envDiff = i + 1
			}
		}
		rl := []any{}
		for _, r := range c.Rules {
			pl := func(ps []dPat) []any {
				o := []any{}
				for _, p := range ps {
					o = append(o, map[string]any{"kind": p.Kind, "lit": chars(strings.Join(p.Lit, ""))})
				}
				return o
			}
			rl = append(rl, map[string]any{"excl": pl(r.Excl), "incl": pl(r.Incl)})
		}
		rec.emit(map[string]any{"ev": "c07", "id": c.ID, "rules": rl, "verdicts": verdicts, "own": own, "conc": conc, "envDiff": envDiff})
	}
	return n, sc.Err()
}

var _ = rand.Int

func hasInvalidRegex(rules []dRule) bool {
	for _, r := range rules {
		for _, p := range append(append([]dPat{}, r.Excl...), r.Incl...) {
			if p.Kind == "reInvalid" {
				return true
			}
		}
	}
	return false
}
