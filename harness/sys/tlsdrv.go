package zzverif

// TLS trust driver (C20): histories from TLSTrust.tla (load a configuration, rewrite the CA file, let the refresh
// interval elapse) are applied to the real TLS configuration pool; after every step a real TLS handshake against a
// server certified by CA1 and one certified by CA2 is attempted with every configuration loaded so far.

import (
	"bufio"
	"context"
	"crypto/ecdsa"
	"crypto/elliptic"
	"crypto/rand"
	"crypto/tls"
	"crypto/x509"
	"crypto/x509/pkix"
	"encoding/json"
	"encoding/pem"
	"fmt"
	"math/big"
	"net"
	"net/http"
	"os"
	"path/filepath"
	"strings"
	"time"

	"google.golang.org/protobuf/types/known/durationpb"
	"google.golang.org/protobuf/types/known/structpb"

	oidcv1 "github.com/istio-ecosystem/authservice/config/gen/go/v1/oidc"
	"github.com/istio-ecosystem/authservice/internal"
	inthttp "github.com/istio-ecosystem/authservice/internal/http"
)

const tlsInterval = 30 * time.Millisecond

type tlsEvent struct {
	Op       string `json:"op"`
	CA       string `json:"ca"`
	Skip     string `json:"skip"`
	Interval int    `json:"interval"`
	Content  string `json:"content"`
}

type testCA struct {
	pem  []byte
	cert *x509.Certificate
	key  *ecdsa.PrivateKey
	ln   net.Listener
	addr string
}

func newTestCA(name string) (*testCA, error) {
	key, err := ecdsa.GenerateKey(elliptic.P256(), rand.Reader)
	if err != nil {
		return nil, err
	}
	tmpl := &x509.Certificate{SerialNumber: big.NewInt(1), Subject: pkix.Name{CommonName: name}, NotBefore: time.Now().Add(-time.Hour), NotAfter: time.Now().Add(24 * time.Hour),
		IsCA: true, KeyUsage: x509.KeyUsageCertSign | x509.KeyUsageDigitalSignature, BasicConstraintsValid: true}
	der, err := x509.CreateCertificate(rand.Reader, tmpl, tmpl, &key.PublicKey, key)
	if err != nil {
		return nil, err
	}
	cert, _ := x509.ParseCertificate(der)
	ca := &testCA{pem: pem.EncodeToMemory(&pem.Block{Type: "CERTIFICATE", Bytes: der}), cert: cert, key: key}
	// a TLS server whose certificate chains to this CA only
	skey, _ := ecdsa.GenerateKey(elliptic.P256(), rand.Reader)
	stmpl := &x509.Certificate{SerialNumber: big.NewInt(2), Subject: pkix.Name{CommonName: "server-" + name}, NotBefore: time.Now().Add(-time.Hour), NotAfter: time.Now().Add(24 * time.Hour),
		KeyUsage: x509.KeyUsageDigitalSignature, ExtKeyUsage: []x509.ExtKeyUsage{x509.ExtKeyUsageServerAuth}, IPAddresses: []net.IP{net.ParseIP("127.0.0.1")}, DNSNames: []string{"localhost"}}
	sder, err := x509.CreateCertificate(rand.Reader, stmpl, cert, &skey.PublicKey, key)
	if err != nil {
		return nil, err
	}
	ln, err := tls.Listen("tcp", "127.0.0.1:0", &tls.Config{Certificates: []tls.Certificate{{Certificate: [][]byte{sder}, PrivateKey: skey}}})
	if err != nil {
		return nil, err
	}
	ca.ln, ca.addr = ln, ln.Addr().String()
	srv := &http.Server{Handler: http.HandlerFunc(func(w http.ResponseWriter, r *http.Request) { _, _ = w.Write([]byte("ok")) })}
	srv.SetKeepAlivesEnabled(false)
	go func() { _ = srv.Serve(ln) }()
	return ca, nil
}

// handshake performs a real HTTPS request through the client the service itself would build for this configuration.
func handshake(cfg *oidcv1.OIDCConfig, pool internal.TLSConfigPool, addr string) bool {
	cl, err := inthttp.NewHTTPClient(cfg, pool, nil)
	if err != nil {
		return false
	}
	cl.Timeout = 15 * time.Second
	defer cl.CloseIdleConnections()
	resp, err := cl.Get("https://" + addr + "/")
	if err != nil {
		return false
	}
	_ = resp.Body.Close()
	return true
}

// get performs one HTTPS request with a given (long-lived) client, on a fresh connection
func get(cl *http.Client, addr string) bool {
	defer cl.CloseIdleConnections()
	resp, err := cl.Get("https://" + addr + "/")
	if err != nil {
		return false
	}
	_ = resp.Body.Close()
	return true
}

func skipValue(s string) *structpb.Value {
	switch s {
	case "true":
		return structpb.NewBoolValue(true)
	case "false":
		return structpb.NewBoolValue(false)
	case "strTrue":
		return structpb.NewStringValue("true")
	case "strFalse":
		return structpb.NewStringValue("false")
	}
	return nil
}

type loadedCfg struct {
	cfg *oidcv1.OIDCConfig
	ptr string
	// a client built when the configuration was loaded and kept (as the JWKS fetcher keeps its client): it must follow
	// a CA rotation as well
	kept *http.Client
}

func runTLSScenario(rec *recorder, id string, events []tlsEvent, cas map[string]*testCA, dir string) error {
	ctx, cancel := context.WithCancel(context.Background())
	defer cancel()
	pool := internal.NewTLSConfigPool(ctx)
	// the configured CA path is a symbolic link into a data directory, as in a Kubernetes secret / configmap volume
	// (ca.pem -> ..data/ca.pem): a rotation either rewrites the file or re-points the link to a new directory
	base := filepath.Join(dir, strings.ReplaceAll(id, "/", "_"))
	file := base + ".pem"
	gen := 0
	dataFile := func(g int) string { return filepath.Join(fmt.Sprintf("%s.d%d", base, g), "ca.pem") }
	if err := os.MkdirAll(filepath.Dir(dataFile(0)), 0o700); err != nil {
		return err
	}
	if err := os.WriteFile(dataFile(0), cas["ca1"].pem, 0o600); err != nil {
		return err
	}
	if err := os.Symlink(dataFile(0), file); err != nil {
		return err
	}
	defer func() {
		os.Remove(file)
		os.RemoveAll(filepath.Dir(dataFile(gen)))
	}()
	// what the file holds when the history begins (the first event says so)
	initial := "ca1"
	if len(events) > 0 && events[0].Op == "start" {
		initial = events[0].Content
		events = events[1:]
	}
	if initial != "ca1" {
		if err := os.WriteFile(dataFile(0), contentBytes(cas, initial), 0o600); err != nil {
			return err
		}
	}
	rec.emit(map[string]any{"ev": "treset", "scenario": id, "content": initial})
	var loaded []loadedCfg
	dirty, refreshing := false, false
	rewrites := 0
	content := initial
	refreshingCfg := map[int]bool{}
	ptrs := map[*tls.Config]string{}
	observe := func() []any {
		out := []any{}
		for _, lc := range loaded {
			o := map[string]any{"ca1": handshake(lc.cfg, pool, cas["ca1"].addr), "ca2": handshake(lc.cfg, pool, cas["ca2"].addr), "ptr": lc.ptr, "sys": true}
			if sysCA, ok := cas["sys"]; ok {
				o["sys"] = handshake(lc.cfg, pool, sysCA.addr) // a server certified by an authority of the system pool
			}
			o["ca1Kept"], o["ca2Kept"] = get(lc.kept, cas["ca1"].addr), get(lc.kept, cas["ca2"].addr)
			out = append(out, o)
		}
		return out
	}
	for _, e := range events {
		switch e.Op {
		case "load":
			c := &oidcv1.OIDCConfig{SkipVerifyPeerCert: skipValue(e.Skip)}
			switch e.CA {
			case "inline1":
				c.TrustedCaConfig = &oidcv1.OIDCConfig_TrustedCertificateAuthority{TrustedCertificateAuthority: string(cas["ca1"].pem)}
			case "file":
				c.TrustedCaConfig = &oidcv1.OIDCConfig_TrustedCertificateAuthorityFile{TrustedCertificateAuthorityFile: file}
			}
			if e.Interval > 0 {
				c.TrustedCertificateAuthorityRefreshInterval = durationpb.New(tlsInterval)
			}
			tc, err := pool.LoadTLSConfig(c)
			if err != nil {
				return fmt.Errorf("%s: LoadTLSConfig: %w", id, err)
			}
			p := "nil"
			if tc != nil {
				if _, ok := ptrs[tc]; !ok {
					ptrs[tc] = fmt.Sprintf("p%d", len(ptrs)+1)
				}
				p = ptrs[tc]
			} // (no TLS configuration at all - the client's default applies - is "nil": nothing to share, nothing to compare)
			kept, kerr := inthttp.NewHTTPClient(c, pool, nil)
			if kerr != nil {
				return fmt.Errorf("%s: NewHTTPClient: %w", id, kerr)
			}
			kept.Timeout = 15 * time.Second
			loaded = append(loaded, loadedCfg{cfg: c, ptr: p, kept: kept})
			if e.CA == "file" && e.Interval > 0 {
				refreshing = true
				refreshingCfg[len(loaded)-1] = true
			}
		case "rewrite":
			content = e.Content
			data := contentBytes(cas, e.Content)
			rewrites++
			how := (len(id)*7 + int(id[len(id)-1]) + rewrites) % 3 // which way this rotation is made varies with the scenario and the rotation
			if how == 0 {
				// re-point the link: new data directory, atomic swap of the link, old directory removed
				if err := os.MkdirAll(filepath.Dir(dataFile(gen+1)), 0o700); err != nil {
					return err
				}
				if err := os.WriteFile(dataFile(gen+1), data, 0o600); err != nil {
					return err
				}
				tmp := file + ".tmp"
				_ = os.Remove(tmp)
				if err := os.Symlink(dataFile(gen+1), tmp); err != nil {
					return err
				}
				if err := os.Rename(tmp, file); err != nil {
					return err
				}
				_ = os.RemoveAll(filepath.Dir(dataFile(gen)))
				gen++
			} else if err := os.WriteFile(file, data, 0o600); err != nil {
				return err
			}
			if how == 2 {
				// a roll-back (mv of a backup, cp -p): the new content carries an OLDER modification time than the one it replaces
				old := time.Now().Add(-time.Duration(rewrites) * time.Hour)
				_ = os.Chtimes(file, old, old)
			}
			dirty = true
		case "wait":
			// let the refresh interval elapse. How long to wait is a matter of patience, not of judgement: when the file holds a
			// usable CA the driver polls (up to 200 intervals) until every refreshing configuration shows it; when it holds
			// something unusable, or nothing changed since the last wait, nothing is expected to change and ten intervals do.
			time.Sleep(3 * tlsInterval)
			if dirty && refreshing {
				if content == "ca1" || content == "ca2" || content == "bundle" {
					want1, want2 := content != "ca2", content != "ca1"
					deadline := time.Now().Add(200 * tlsInterval)
					for time.Now().Before(deadline) {
						all := true
						for i, lc := range loaded {
							if !refreshingCfg[i] {
								continue
							}
							if handshake(lc.cfg, pool, cas["ca1"].addr) != want1 || handshake(lc.cfg, pool, cas["ca2"].addr) != want2 {
								all = false
								break
							}
						}
						if all {
							break
						}
						time.Sleep(tlsInterval)
					}
					time.Sleep(2 * tlsInterval)
				} else {
					time.Sleep(10 * tlsInterval)
				}
			}
			dirty = false
		}
		alive := 0 // (a pool whose private structure the probe does not recognise reports 0: the watcher-count rule then never fires)
		for _, n := range internal.VerifAliveWatchers(pool) {
			alive += n
		}
		rec.emit(map[string]any{"ev": "tev", "op": e.Op, "ca": e.CA, "skip": e.Skip, "interval": e.Interval, "content": e.Content,
			"obs": observe(), "aliveWatchers": alive})
	}
	return nil
}

func runTLSFile(in, out, tmp string) (int, error) {
	f, err := os.Open(in)
	if err != nil {
		return 0, err
	}
	defer f.Close()
	rec, err := newRecorder(out)
	if err != nil {
		return 0, err
	}
	defer rec.close()
	cas := map[string]*testCA{}
	for _, n := range []string{"ca1", "ca2", "sys"} {
		if cas[n], err = newTestCA(n); err != nil {
			return 0, err
		}
		defer cas[n].ln.Close()
	}
	// "the system roots": the runner points SSL_CERT_FILE at a file that does not exist yet; it is written here, before the
	// process builds its first system pool (x509 reads it once, at first use)
	if sysFile := os.Getenv("SSL_CERT_FILE"); sysFile != "" && strings.Contains(sysFile, "verif-sysroots") {
		if err := os.WriteFile(sysFile, cas["sys"].pem, 0o600); err != nil {
			return 0, err
		}
	} else {
		delete(cas, "sys") // no controllable system pool: the system-roots observation is not made
	}
	sc := bufio.NewScanner(f)
	sc.Buffer(make([]byte, 1<<20), 1<<26)
	n := 0
	for sc.Scan() {
		line := strings.TrimSpace(sc.Text())
		if line == "" {
			continue
		}
		var s struct {
			ID     string     `json:"id"`
			Events []tlsEvent `json:"events"`
		}
		if err := json.Unmarshal([]byte(line), &s); err != nil {
			return n, err
		}
		if err := runTLSScenario(rec, s.ID, s.Events, cas, tmp); err != nil {
			return n, err
		}
		n++
	}
	return n, sc.Err()
}

// contentBytes renders a content class of the CA file: one authority, both (a bundle), nothing, or no certificate at all.
func contentBytes(cas map[string]*testCA, c string) []byte {
	switch c {
	case "ca1", "ca2":
		return cas[c].pem
	case "bundle":
		return append(append([]byte{}, cas["ca1"].pem...), cas["ca2"].pem...)
	case "empty":
		return []byte{}
	}
	return []byte("this is not a certificate")
}
