package zzverif

// Real-binary driver (C10, "the service as actually assembled at start-up"): the binary built from ./cmd is started
// with a real configuration file and driven over gRPC in real time; only requests, answers and the wall clock are logged.

import (
	"bufio"
	"context"
	"encoding/json"
	"fmt"
	"net"
	"os"
	"os/exec"
	"path/filepath"
	"strings"
	"sync"
	"time"

	"github.com/alicebob/miniredis/v2"
	envoy "github.com/envoyproxy/go-control-plane/envoy/service/auth/v3"
	"google.golang.org/grpc"
	"google.golang.org/grpc/credentials/insecure"
)

type binScenario struct {
	ID     string    `json:"id"`
	Store  string    `json:"store"`
	Abs    int       `json:"abs"`
	Idle   int       `json:"idle"`
	Probes []float64 `json:"probes"` // seconds after the login at which an application request is made
}

var (
	portMu    sync.Mutex
	portsUsed = map[int]bool{}
)

// freePort returns a port that is free now and that this process has not handed out before.
func freePort() int {
	portMu.Lock()
	defer portMu.Unlock()
	for i := 0; i < 50; i++ {
		l, err := net.Listen("tcp", "127.0.0.1:0")
		if err != nil {
			continue
		}
		p := l.Addr().(*net.TCPAddr).Port
		_ = l.Close()
		if !portsUsed[p] {
			portsUsed[p] = true
			return p
		}
	}
	return 0
}

func runBinaryScenario(bin, out, tmp string, sc binScenario) error {
	d, err := newDriver(out, tmp)
	if err != nil {
		return err
	}
	defer d.close()
	// the binary reads the real clock: the harness' tokens must be valid in real time as well
	d.realTime = true
	s := &Scenario{ID: sc.ID, Cfg: CfgSpec{Filters: []FilterSpec{{Name: "f1", Store: sc.Store, AccessFwd: true, Logout: true, Abs: sc.Abs, Idle: sc.Idle}}}}
	d.rec.resetSyms()
	d.idp.reset()
	d.checks, d.logins, d.brs = map[string]*checkRun{}, map[string]*login{}, map[string]*browser{}
	d.codeOwner, d.rtReader = map[string]*checkRun{}, map[string]*checkRun{}
	if err := d.setup(s.Cfg); err != nil {
		return err
	}
	// miniredis has no clock of its own: let it follow the wall clock while the binary runs
	stopClock := make(chan struct{})
	defer close(stopClock)
	for _, m := range d.env.mr {
		m.SetTime(time.Now())
		go func(m *miniredis.Miniredis) {
			last := time.Now()
			tk := time.NewTicker(50 * time.Millisecond)
			defer tk.Stop()
			for {
				select {
				case <-stopClock:
					return
				case now := <-tk.C:
					m.SetTime(now)
					m.FastForward(now.Sub(last))
					last = now
				}
			}
		}(m)
	}
	// same configuration document, own ports
	raw, err := os.ReadFile(filepath.Join(tmp, "config.json"))
	if err != nil {
		return err
	}
	var doc map[string]any
	_ = json.Unmarshal(raw, &doc)
	// The binary listens on ports of its own. A port found free may be taken by the time the binary binds it (eight binaries,
	// their providers and Redis servers start at the same moment): a binary that ends before it serves is started again on
	// other ports, a few times.
	var (
		cmd  *exec.Cmd
		logf *os.File
		addr string
		up   bool
		last string
	)
	for attempt := 0; attempt < 6 && !up; attempt++ {
		port, hport := freePort(), freePort()
		doc["listen_port"], doc["health_listen_port"] = port, hport
		raw, _ = json.Marshal(doc)
		cfgPath := filepath.Join(tmp, fmt.Sprintf("binary-config-%d.json", attempt))
		if err := os.WriteFile(cfgPath, raw, 0o600); err != nil {
			return err
		}
		cmd = exec.Command(bin, "--config-path", cfgPath)
		logPath := filepath.Join(tmp, fmt.Sprintf("binary-%d.log", attempt))
		logf, _ = os.Create(logPath)
		cmd.Stdout, cmd.Stderr = logf, logf
		if err := cmd.Start(); err != nil {
			return err
		}
		exited := make(chan struct{})
		go func(c *exec.Cmd) { _, _ = c.Process.Wait(); close(exited) }(cmd)
		addr = fmt.Sprintf("127.0.0.1:%d", port)
		gone := false
		for i := 0; i < 200 && !up && !gone; i++ {
			select {
			case <-exited:
				gone = true
			case <-time.After(50 * time.Millisecond):
				if c, err := net.DialTimeout("tcp", addr, 200*time.Millisecond); err == nil {
					_ = c.Close()
					// somebody listens there; it is our binary if that is still running a moment later (a binary that could not
					// bind its port ends within milliseconds)
					select {
					case <-exited:
						gone = true
					case <-time.After(300 * time.Millisecond):
						up = true
					}
				}
			}
		}
		if !up {
			b, _ := os.ReadFile(logPath)
			last = string(b)
			_ = cmd.Process.Kill()
			_ = logf.Close()
		}
	}
	if !up {
		return fmt.Errorf("binary did not start serving in six attempts: %s", last)
	}
	defer func() { _ = cmd.Process.Kill(); _ = logf.Close() }()
	conn, err := grpc.NewClient(addr, grpc.WithTransportCredentials(insecure.NewCredentials()))
	if err != nil {
		return err
	}
	defer conn.Close()
	client := envoy.NewAuthorizationClient(conn)
	d.checkFn = func(ctx context.Context, req *envoy.CheckRequest) (*envoy.CheckResponse, error) {
		cctx, cancel := context.WithTimeout(ctx, 20*time.Second)
		defer cancel()
		return client.Check(cctx, req)
	}
	d.parallel = true // nothing is gated: the stores live in the other process
	d.orphan = &checkRun{id: "orphan", f: "f1"}
	d.rec.emit(map[string]any{"ev": "breset", "scenario": sc.ID, "store": sc.Store, "abs": sc.Abs, "idle": sc.Idle})
	long := &AnsSpec{Mode: "honest", RT: true, IDLife: 100000}
	exp := 100000
	long.ExpiresIn = &exp
	d.browse(&Step{Op: "browse", B: "b1", F: "f1", URL: 1, Ans: long})
	t0 := time.Now()
	d.rec.emit(map[string]any{"ev": "blogin", "ms": 0})
	for _, p := range sc.Probes {
		time.Sleep(time.Until(t0.Add(time.Duration(p * float64(time.Second)))))
		ms := time.Since(t0).Milliseconds()
		c := d.start(&Step{Op: "check", B: "b1", F: "f1", Kind: "app", Cookie: "sid:1", URL: 1, Ans: long})
		d.finish(c)
		outcome := "denied"
		if c.resp != nil && c.resp.GetStatus().GetCode() == 0 && c.resp.GetDeniedResponse() == nil {
			outcome = "ok"
		} else if c.err != nil {
			outcome = "error"
		}
		d.rec.emit(map[string]any{"ev": "bprobe", "ms": ms, "outcome": outcome})
	}
	d.rec.emit(map[string]any{"ev": "bend", "scenario": sc.ID})
	return nil
}

func runBinaryFile(in, out, tmp, bin string) (int, error) {
	f, err := os.Open(in)
	if err != nil {
		return 0, err
	}
	defer f.Close()
	var scs []binScenario
	sc := bufio.NewScanner(f)
	for sc.Scan() {
		line := strings.TrimSpace(sc.Text())
		if line == "" {
			continue
		}
		var s binScenario
		if err := json.Unmarshal([]byte(line), &s); err != nil {
			return 0, err
		}
		scs = append(scs, s)
	}
	// one process per scenario, all at the same time (they only wait for the wall clock)
	var wg sync.WaitGroup
	errs := make([]error, len(scs))
	for i, s := range scs {
		wg.Add(1)
		go func(i int, s binScenario) {
			defer wg.Done()
			t := filepath.Join(tmp, fmt.Sprintf("bin%d", i))
			_ = os.MkdirAll(t, 0o700)
			errs[i] = runBinaryScenario(bin, filepath.Join(tmp, fmt.Sprintf("bin%d.ndjson", i)), t, s)
		}(i, s)
	}
	wg.Wait()
	w, err := os.Create(out)
	if err != nil {
		return 0, err
	}
	defer w.Close()
	for i := range scs {
		if errs[i] != nil {
			return i, fmt.Errorf("%s: %w", scs[i].ID, errs[i])
		}
		b, err := os.ReadFile(filepath.Join(tmp, fmt.Sprintf("bin%d.ndjson", i)))
		if err != nil {
			return i, err
		}
		_, _ = w.Write(b)
	}
	return len(scs), nil
}
