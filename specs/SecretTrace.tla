----------------------------- MODULE SecretTrace -----------------------------
(* Validates the secrets held by every filter after each event against SecretSync's reference semantics (C19). *)
EXTENDS Integers, Sequences, FiniteSets, TLC, Json

CONSTANTS TraceFile, OutFile
Trace == ndJsonDeserialize(TraceFile)
VARIABLES l, refs, k8s, sec, skip, sc, viol, fired
vars == <<l, refs, k8s, sec, skip, sc, viol, fired>>
E == Trace[l]
Put(f, k, v) == [x \in (DOMAIN f) \cup {k} |-> IF x = k THEN v ELSE f[x]]
Bump(f, k) == IF k \in DOMAIN f THEN [f EXCEPT ![k] = @ + 1] ELSE Put(f, k, 1)
NoSecret == [ex |-> FALSE, v |-> "", key |-> "none", deleting |-> FALSE]
K(n) == IF n \in DOMAIN k8s THEN k8s[n] ELSE NoSecret

NextK8s ==
  CASE E.op = "set" -> Put(k8s, E.name, [ex |-> TRUE, v |-> E.v, key |-> "ok", deleting |-> FALSE])
    [] E.op = "setWhileDeleting" -> Put(k8s, E.name, [K(E.name) EXCEPT !.v = E.v, !.key = "ok"])
    [] E.op = "dropKey" -> Put(k8s, E.name, [K(E.name) EXCEPT !.key = "missing"])
    [] E.op = "emptyKey" -> Put(k8s, E.name, [K(E.name) EXCEPT !.key = "empty"])
    [] E.op = "markDeleting" -> Put(k8s, E.name, [K(E.name) EXCEPT !.deleting = TRUE])
    [] E.op = "delete" -> Put(k8s, E.name, NoSecret)
    [] OTHER -> k8s

Expected ==
  IF E.op = "reconcile"
  THEN [f \in DOMAIN refs |-> IF refs[f] = E.name /\ K(E.name).ex /\ ~K(E.name).deleting /\ K(E.name).key = "ok" THEN K(E.name).v ELSE sec[f]]
  ELSE sec

\* A reconcile of one Secret may also bring filters that reference ANOTHER Secret up to that Secret's current value (a
\* level-triggered controller): C19 forbids giving a filter a value that is not its own Secret's, not giving it its own.
Eligible(n) == K(n).ex /\ ~K(n).deleting /\ K(n).key = "ok"
Allowed(f) == IF E.op = "reconcile" /\ refs[f] \notin {"lit", E.name} /\ Eligible(refs[f]) THEN {sec[f], K(refs[f]).v} ELSE {Expected[f]}

Causes ==
  LET bad == {f \in DOMAIN refs : E.held[f] \notin Allowed(f)} IN
  IF bad = {} THEN {}
  ELSE LET f == CHOOSE x \in bad : \A y \in bad : x <= y IN
       {IF refs[f] # E.name \/ E.op # "reconcile" THEN "secret-of-a-filter-changed-that-must-not-change:" \o E.op
        ELSE IF Expected[f] = sec[f] THEN "ineligible-secret-applied:" \o (IF K(E.name).deleting THEN "deleting" ELSE IF ~K(E.name).ex THEN "absent" ELSE "key-" \o K(E.name).key)
        ELSE "referencing-filter-not-updated"}

Init == l = 1 /\ refs = <<>> /\ k8s = <<>> /\ sec = <<>> /\ skip = FALSE /\ sc = "none" /\ viol = {} /\ fired = <<>>
Next ==
  /\ l <= Len(Trace) /\ l' = l + 1
  /\ CASE E.ev = "kreset" ->
            /\ refs' = E.refs /\ k8s' = <<>> /\ sc' = E.scenario /\ skip' = FALSE
            /\ sec' = [f \in DOMAIN E.refs |-> IF E.refs[f] = "lit" THEN "literal" ELSE "unset"]
            /\ fired' = Bump(fired, "scenarios")
            /\ viol' = viol \cup (IF E.startupError # E.expectStartupError
                                  THEN {[p |-> "C19", m |-> "SecretSync", cause |-> IF E.expectStartupError THEN "cross-namespace-reference-not-refused" ELSE "start-up-refused-a-valid-configuration",
                                         sc |-> E.scenario, n |-> 0, at |-> l]} ELSE {})
       [] E.ev = "kev" ->
            IF skip THEN UNCHANGED <<refs, k8s, sec, skip, sc, viol, fired>>
            ELSE /\ viol' = viol \cup {[p |-> "C19", m |-> "SecretSync", cause |-> c, sc |-> sc, n |-> 0, at |-> l] : c \in Causes}
                 /\ skip' = (Causes # {})
                 /\ sec' = [f \in DOMAIN refs |-> IF E.held[f] \in Allowed(f) THEN E.held[f] ELSE Expected[f]] /\ k8s' = NextK8s
                 /\ fired' = Bump(fired, E.op)
                 /\ UNCHANGED <<refs, sc>>
       [] OTHER -> UNCHANGED <<refs, k8s, sec, skip, sc, viol, fired>>
Spec == Init /\ [][Next]_vars
Emit == l <= Len(Trace) \/ JsonSerialize(OutFile, [consumed |-> l - 1, len |-> Len(Trace), viol |-> viol, fired |-> fired, drift |-> {}])
=============================================================================
