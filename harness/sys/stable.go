package zzverif

// Answers are values: what Check returned must not change afterwards. gRPC serialises the response after the handler has
// returned, while other requests run; a response that shares memory with later responses can be sent with another
// session's Location or cookie. The driver keeps the last few responses of a scenario and compares their serialised form
// again after every later check.

import (
	"bytes"
	"sync"

	envoy "github.com/envoyproxy/go-control-plane/envoy/service/auth/v3"
	"google.golang.org/protobuf/proto"
)

type retainedResp struct {
	n    int
	resp *envoy.CheckResponse
	wire []byte
	hdrs map[string]string
}

var (
	stableMu sync.Mutex
	retained = map[*env][]*retainedResp{}
)

func wireOf(r *envoy.CheckResponse) []byte {
	b, err := proto.MarshalOptions{Deterministic: true}.Marshal(r)
	if err != nil {
		return []byte("unmarshalable: " + err.Error())
	}
	return b
}

func hdrsOf(r *envoy.CheckResponse) map[string]string {
	out := map[string]string{}
	if dr := r.GetDeniedResponse(); dr != nil {
		for _, h := range dr.GetHeaders() {
			out["denied:"+h.GetHeader().GetKey()] += h.GetHeader().GetValue() + "\x00"
		}
		out["body"] = dr.GetBody()
	}
	if ok := r.GetOkResponse(); ok != nil {
		for _, h := range ok.GetHeaders() {
			out["ok:"+h.GetHeader().GetKey()] += h.GetHeader().GetValue() + "\x00"
		}
	}
	return out
}

// checkStable re-examines the responses retained for the scenario, reports those that changed since they were returned
// (one "mutated" event each), then retains the response of check c.
func (d *driver) checkStable(c *checkRun) {
	e := d.env
	if e == nil {
		return
	}
	stableMu.Lock()
	defer stableMu.Unlock()
	keep := retained[e][:0]
	for _, r := range retained[e] {
		now := wireOf(r.resp)
		if bytes.Equal(now, r.wire) {
			keep = append(keep, r)
			continue
		}
		parts := []any{}
		cur := hdrsOf(r.resp)
		seen := map[string]bool{}
		for k, v := range r.hdrs {
			seen[k] = true
			if cur[k] != v {
				parts = append(parts, partName(k))
			}
		}
		for k := range cur {
			if !seen[k] {
				parts = append(parts, partName(k))
			}
		}
		if len(parts) == 0 {
			parts = append(parts, "other")
		}
		d.rec.emit(map[string]any{"ev": "mutated", "n": r.n, "by": c.n, "parts": parts})
	}
	if c.resp != nil {
		keep = append(keep, &retainedResp{n: c.n, resp: c.resp, wire: wireOf(c.resp), hdrs: hdrsOf(c.resp)})
		if len(keep) > 4 {
			keep = keep[len(keep)-4:]
		}
	}
	retained[e] = keep
}

func (d *driver) dropStable(e *env) {
	stableMu.Lock()
	delete(retained, e)
	stableMu.Unlock()
}

func partName(k string) string {
	switch k {
	case "denied:location", "denied:Location":
		return "location"
	case "denied:set-cookie", "denied:Set-Cookie":
		return "cookie"
	case "body":
		return "body"
	}
	if len(k) > 3 && k[:3] == "ok:" {
		return "upstream"
	}
	return "other"
}
