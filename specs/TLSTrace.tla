------------------------------ MODULE TLSTrace ------------------------------
(***************************************************************************)
(* Judges real TLS handshakes (C20).  After every step the driver logs,    *)
(* for every configuration loaded so far, whether a handshake with a       *)
(* server certified by CA1 / CA2 succeeded, the identity of the pooled     *)
(* configuration object and the number of alive file watchers.  What each  *)
(* configuration must trust is computed here from the statement of C20,    *)
(* not from the code's watcher bookkeeping.                                *)
(***************************************************************************)
EXTENDS Integers, Sequences, FiniteSets, TLC, Json
CONSTANTS TraceFile, OutFile
Trace == ndJsonDeserialize(TraceFile)
VARIABLES l, file, pending, cfgs, sc, skip, viol, fired
vars == <<l, file, pending, cfgs, sc, skip, viol, fired>>
E == Trace[l]
Bump(f, k) == IF k \in DOMAIN f THEN [f EXCEPT ![k] = @ + 1] ELSE [x \in DOMAIN f \cup {k} |-> IF x = k THEN 1 ELSE f[x]]
SkipOn(s) == s \in {"true", "strTrue"}

\* cfgs: sequence of [ca, skip, interval, roots] in load order (duplicates kept: they must share the object).
\* roots is the SET of contents the configuration may hold: between a rewrite and the next elapsed interval the real
\* watcher may or may not have picked the new content up, so both are possible; every observation narrows the set.
Usable(c) == c \in {"ca1", "ca2", "bundle"}
\* which servers a content makes trusted: a bundle holds both authorities; an empty or unusable file none
Trusts(r, ca) == r = ca \/ r = "bundle"
NewCfg == [ca |-> E.ca, skip |-> E.skip, interval |-> E.interval,
           roots |-> IF E.ca = "inline1" THEN {"ca1"} ELSE IF E.ca = "file" THEN {file} ELSE {"none"}]
Same(a, b) == a.ca = b.ca /\ SkipOn(a.skip) = SkipOn(b.skip) /\ a.interval = b.interval
Refreshing(c) == c.ca = "file" /\ c.interval > 0
After ==
  CASE E.op = "load" -> IF \E i \in DOMAIN cfgs : Same(cfgs[i], NewCfg)
                        THEN Append(cfgs, [NewCfg EXCEPT !.roots = cfgs[CHOOSE i \in DOMAIN cfgs : Same(cfgs[i], NewCfg)].roots])
                        ELSE Append(cfgs, NewCfg)
    [] E.op = "rewrite" -> [i \in DOMAIN cfgs |-> IF Refreshing(cfgs[i]) /\ Usable(E.content) THEN [cfgs[i] EXCEPT !.roots = @ \cup {E.content}] ELSE cfgs[i]]
    [] E.op = "wait" -> [i \in DOMAIN cfgs |-> IF Refreshing(cfgs[i]) /\ Usable(file) THEN [cfgs[i] EXCEPT !.roots = {file}] ELSE cfgs[i]]
    [] OTHER -> cfgs

Insecure(c) == c.ca = "none" /\ SkipOn(c.skip)
Consistent(c, o, r) == (o.ca1 = (Insecure(c) \/ Trusts(r, "ca1"))) /\ (o.ca2 = (Insecure(c) \/ Trusts(r, "ca2")))
\* the two handshakes of one observation are made one after the other: while a refresh is possible they may see different roots
Explained(c, o) == (\E r \in c.roots : o.ca1 = (Insecure(c) \/ Trusts(r, "ca1"))) /\ (\E r \in c.roots : o.ca2 = (Insecure(c) \/ Trusts(r, "ca2")))
\* the same for a client that was built when the configuration was loaded and has been kept since
ExplainedKept(c, o) == (\E r \in c.roots : o.ca1Kept = (Insecure(c) \/ Trusts(r, "ca1"))) /\ (\E r \in c.roots : o.ca2Kept = (Insecure(c) \/ Trusts(r, "ca2")))
\* every observation narrows the possibilities to what was seen; the current usable content of the file stays possible
\* for a refreshing configuration, because its watcher may pick it up at any moment
Narrow(a, obs, cur) == [i \in DOMAIN a |->
    LET ok == {r \in a[i].roots : Consistent(a[i], obs[i], r)}
        soon == IF Refreshing(a[i]) /\ Usable(cur) THEN {cur} ELSE {}
    IN IF ok = {} THEN [a[i] EXCEPT !.roots = @ \cup soon] ELSE [a[i] EXCEPT !.roots = ok \cup soon]]

Causes ==
  LET a == After
      obs == E.obs
      bad == {i \in DOMAIN a : ~Explained(a[i], obs[i])}
      badKept == {i \in DOMAIN a : Explained(a[i], obs[i]) /\ ~ExplainedKept(a[i], obs[i])}
  IN (IF bad = {} THEN {}
      ELSE LET i == CHOOSE x \in bad : \A y \in bad : x <= y
               c == a[i]
           IN {IF Refreshing(c) /\ E.op = "wait" THEN "rotation-not-followed-by:" \o (IF \E j \in DOMAIN a : j # i /\ a[j].ca = "file" /\ ~Same(a[j], c) THEN "config-sharing-the-file-with-another" ELSE "only-config-on-the-file")
               ELSE IF c.ca = "none" /\ ~SkipOn(c.skip) THEN "trusts-without-ca-and-without-skip"
               ELSE IF c.ca # "none" /\ (obs[i].ca1 /\ obs[i].ca2) THEN "skip-verify-wins-over-ca-or-trusts-everything"
               ELSE IF c.ca = "none" THEN "skip-verify-not-honoured"
               ELSE "trusted-cas-differ:" \o c.ca \o ":" \o E.op})
     \cup (IF badKept # {} THEN {"client-built-before-the-rotation-does-not-follow-it"} ELSE {})
     \* the system roots stay trusted whatever CA is configured, loaded or rotated in
     \cup (IF \E i \in DOMAIN a : ~obs[i].sys THEN {"system-roots-not-trusted"} ELSE {})
     \cup (IF \E i, j \in DOMAIN a : i < j /\ Same(a[i], a[j]) /\ obs[i].ptr # "nil" /\ obs[j].ptr # "nil" /\ obs[i].ptr # obs[j].ptr THEN {"identical-settings-do-not-share-one-configuration"} ELSE {})
     \cup (IF E.aliveWatchers > Cardinality({[ca |-> a[i].ca, s |-> SkipOn(a[i].skip), n |-> a[i].interval] : i \in {j \in DOMAIN a : Refreshing(a[j])}})
           THEN {"superseded-watcher-still-running"} ELSE {})

Init == l = 1 /\ file = "ca1" /\ pending = FALSE /\ cfgs = <<>> /\ sc = "none" /\ skip = FALSE /\ viol = {} /\ fired = <<>>
Next ==
  /\ l <= Len(Trace) /\ l' = l + 1
  /\ CASE E.ev = "treset" -> file' = E.content /\ pending' = FALSE /\ cfgs' = <<>> /\ sc' = E.scenario /\ skip' = FALSE /\ fired' = Bump(fired, "scenarios") /\ UNCHANGED viol
       [] E.ev = "tev" ->
            IF skip THEN UNCHANGED <<file, pending, cfgs, sc, skip, viol, fired>>
            ELSE /\ file' = IF E.op = "rewrite" THEN E.content ELSE file
                 /\ cfgs' = Narrow(After, E.obs, IF E.op = "rewrite" THEN E.content ELSE file)
                 /\ viol' = viol \cup {[p |-> "C20", m |-> "TrustFollowsConfiguration", cause |-> c, sc |-> sc, n |-> 0, at |-> l] : c \in Causes}
                 /\ skip' = (Causes # {})
                 /\ fired' = Bump(fired, E.op)
                 /\ pending' = IF E.op = "rewrite" THEN TRUE ELSE IF E.op = "wait" THEN FALSE ELSE pending
                 /\ UNCHANGED sc
       [] OTHER -> UNCHANGED <<file, pending, cfgs, sc, skip, viol, fired>>
Spec == Init /\ [][Next]_vars
Emit == l <= Len(Trace) \/ JsonSerialize(OutFile, [consumed |-> l - 1, len |-> Len(Trace), viol |-> viol, fired |-> fired, drift |-> {}])
=============================================================================
