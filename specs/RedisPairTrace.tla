--------------------------- MODULE RedisPairTrace ---------------------------
(***************************************************************************)
(* Conformance of the real Redis store to RedisStore.tla at Redis-command  *)
(* granularity.  Every schedule TLC printed was replayed against two real  *)
(* store instances with miniredis' command hook as gate; the driver logs   *)
(* the outcome predicted by the model next to the real one (final hash,    *)
(* results, errors) and the commands each instance really issued.  A       *)
(* difference is specification drift.  Outcomes that no sequential order   *)
(* explains are counted per pair of operations as observations: they lie   *)
(* outside the listed properties.                                          *)
(***************************************************************************)
EXTENDS Integers, Sequences, FiniteSets, TLC, Json
CONSTANTS TraceFile, OutFile
Trace == ndJsonDeserialize(TraceFile)
VARIABLES l, drift, torn, fired
vars == <<l, drift, torn, fired>>
E == Trace[l]
Bump(f, k) == IF k \in DOMAIN f THEN [f EXCEPT ![k] = @ + 1] ELSE [x \in DOMAIN f \cup {k} |-> IF x = k THEN 1 ELSE f[x]]
Init == l = 1 /\ drift = {} /\ torn = <<>> /\ fired = <<>>
Next ==
  /\ l <= Len(Trace) /\ l' = l + 1
  /\ IF E.ev = "rpair"
     THEN /\ drift' = IF E.model # E.real THEN drift \cup {[sc |-> E.id, n |-> 0, expect |-> "the outcome RedisStore.tla computes for this schedule", got |-> "a different final hash or result"]} ELSE drift
          /\ torn' = IF ~E.serializable THEN Bump(torn, E.opA \o "|" \o E.opB \o "@" \o E.start) ELSE torn
          /\ fired' = Bump(fired, "scenarios")
     ELSE UNCHANGED <<drift, torn, fired>>
Spec == Init /\ [][Next]_vars
Emit == l <= Len(Trace) \/ JsonSerialize(OutFile, [consumed |-> l - 1, len |-> Len(Trace), viol |-> {}, drift |-> drift, torn |-> torn, fired |-> fired])
=============================================================================
