//go:build verif

package oidc

import "time"

// VerifProbe is the projected content of one session of a store, read without side effects.
type VerifProbe struct {
	Known    bool // the store type is understood by the probe
	Ex       bool
	Auth     bool
	Tok      bool
	Added    time.Time
	Accessed time.Time
	AbsTO    time.Duration
	IdleTO   time.Duration
}

// VerifProbeMemory reads a session of the in-memory store without touching it.
func VerifProbeMemory(s SessionStore, sid string) VerifProbe {
	m, ok := s.(*memoryStore)
	if !ok {
		return VerifProbe{}
	}
	m.mu.Lock()
	defer m.mu.Unlock()
	p := VerifProbe{Known: true, AbsTO: m.absoluteSessionTimeout, IdleTO: m.idleSessionTimeout}
	if se := m.sessions[sid]; se != nil {
		p.Ex = true
		p.Auth = se.authorizationState != nil
		p.Tok = se.tokenResponse != nil
		p.Added, p.Accessed = se.added, se.accessed
	}
	return p
}

// VerifMemoryLen returns the number of sessions held by the in-memory store (-1 if not a memory store).
func VerifMemoryLen(s SessionStore) int {
	m, ok := s.(*memoryStore)
	if !ok {
		return -1
	}
	m.mu.Lock()
	defer m.mu.Unlock()
	return len(m.sessions)
}

// VerifIsRedis reports whether the store is the Redis implementation, with its timeouts.
func VerifIsRedis(s SessionStore) (bool, time.Duration, time.Duration) {
	r, ok := s.(*redisStore)
	if !ok {
		return false, 0, 0
	}
	return true, r.absoluteSessionTimeout, r.idleSessionTimeout
}
