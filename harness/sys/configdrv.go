package zzverif

// Configuration-loading driver (C17): every document enumerated by ConfigGen.tla is written to a file and loaded
// through the real internal.LocalConfigFile.Validate(); the outcome and a projection of the result are logged.

import (
	"bufio"
	"encoding/json"
	"fmt"
	"os"
	"path/filepath"
	"runtime/debug"
	"strings"

	configv1 "github.com/istio-ecosystem/authservice/config/gen/go/v1"
	"github.com/istio-ecosystem/authservice/internal"
)

type cfgCase struct {
	ID   string          `json:"id"`
	Doc  json.RawMessage `json:"doc"`
	JSON json.RawMessage `json:"json"`
	Raw  string          `json:"raw"` // mutated fixtures: the document text itself
}

func projectFilter(f *configv1.Filter) map[string]any {
	out := map[string]any{"type": "empty", "cid": "", "secret": "none", "header": "", "preamble": "", "cb": "", "loPath": "", "loRedirect": "",
		"authz": "", "token": "", "conf": "", "jwks": false, "scopes": []any{}}
	switch {
	case f.GetMock() != nil:
		out["type"] = "mock"
		return out
	case f.GetOidcOverride() != nil:
		out["type"] = "override"
		return out
	case f.GetOidc() == nil:
		return out
	}
	o := f.GetOidc()
	out["type"] = "oidc"
	out["cid"] = o.GetClientId()
	if o.GetClientSecret() != "" {
		out["secret"] = "literal:" + o.GetClientSecret()
	} else if o.GetClientSecretRef() != nil {
		out["secret"] = "ref:" + o.GetClientSecretRef().GetName()
	}
	out["header"], out["preamble"] = strings.ToLower(o.GetIdToken().GetHeader()), o.GetIdToken().GetPreamble() // (header names are case-insensitive)
	out["cb"] = o.GetCallbackUri()
	out["loPath"], out["loRedirect"] = o.GetLogout().GetPath(), o.GetLogout().GetRedirectUri()
	out["authz"], out["token"], out["conf"] = o.GetAuthorizationUri(), o.GetTokenUri(), o.GetConfigurationUri()
	out["jwks"] = o.GetJwks() != "" || o.GetJwksFetcher() != nil
	out["scopes"] = strs(o.GetScopes())
	return out
}

func loadOnce(path string) (cf *internal.LocalConfigFile, err error, pan any, stack string) {
	defer func() {
		if r := recover(); r != nil {
			pan, stack = r, string(debug.Stack())
		}
	}()
	cf = &internal.LocalConfigFile{}
	if e := cf.FlagSet().Parse([]string{"--config-path", path}); e != nil {
		return cf, e, nil, ""
	}
	err = cf.Validate()
	return
}

func runConfigFile(in, out, tmp string) (int, error) {
	f, err := os.Open(in)
	if err != nil {
		return 0, err
	}
	defer f.Close()
	rec, err := newRecorder(out)
	if err != nil {
		return 0, err
	}
	defer rec.close()
	sc := bufio.NewScanner(f)
	sc.Buffer(make([]byte, 1<<20), 1<<26)
	n := 0
	for sc.Scan() {
		line := strings.TrimSpace(sc.Text())
		if line == "" {
			continue
		}
		var c cfgCase
		if err := json.Unmarshal([]byte(line), &c); err != nil {
			return n, err
		}
		n++
		p := filepath.Join(tmp, "doc.json")
		content := stripMarks(c.JSON)
		if c.Raw != "" {
			content = []byte(c.Raw)
		}
		if err := os.WriteFile(p, content, 0o600); err != nil {
			return n, err
		}
		cf, lerr, pan, stack := loadOnce(p)
		ev := map[string]any{"ev": "cfg", "id": c.ID, "panic": pan != nil, "err": lerr != nil, "errText": "", "result": []any{}, "defaultLeft": false,
			"fixture": c.Raw != ""}
		if len(c.Doc) > 0 {
			var d any
			_ = json.Unmarshal(c.Doc, &d)
			ev["doc"] = d
		} else {
			ev["doc"] = map[string]any{"def": map[string]any{"present": false}, "chains": []any{}}
		}
		if pan != nil {
			ev["errText"] = fmt.Sprint(pan) + "\n" + firstLines(stack, 12)
		} else if lerr != nil {
			ev["errText"] = lerr.Error()
		} else {
			chains := []any{}
			for _, ch := range cf.Config.GetChains() {
				fl := []any{}
				for _, f := range ch.GetFilters() {
					fl = append(fl, projectFilter(f))
				}
				chains = append(chains, fl)
			}
			ev["result"] = chains
			ev["defaultLeft"] = cf.Config.GetDefaultOidcConfig() != nil
		}
		rec.emit(ev)
	}
	return n, sc.Err()
}

// stripMarks removes the verifMark members that keep TLC's rendering of empty sections a JSON object.
func stripMarks(raw json.RawMessage) []byte {
	var v any
	if json.Unmarshal(raw, &v) != nil {
		return raw
	}
	var walk func(x any) any
	walk = func(x any) any {
		switch t := x.(type) {
		case map[string]any:
			delete(t, "verifMark")
			for k, e := range t {
				t[k] = walk(e)
			}
			return t
		case []any:
			for i, e := range t {
				t[i] = walk(e)
			}
			return t
		}
		return x
	}
	b, _ := json.Marshal(walk(v))
	return b
}
