#!/usr/bin/env python3
"""Confirms and files the seeded defects produced by sub-agents under /verif/seeded/<id>/.

For every (property, n): the change is verified in a scratch worktree (applies, builds, existing tests pass, the
demonstration fails with it and passes without it), the check of the property is run against a scratch worktree with the
change applied, and patch.diff, the demonstration and meta.json are written.  usage: seedkeep.py [ids...]"""
import json, os, subprocess, sys, shutil, concurrent.futures

VERIF = "/verif"
SEEDS = [
    # id, property, patch, demo, what it needs to manifest
    ("C01-m1", "C01", "/tmp/wt-C01/out/mutant1.diff", "/tmp/wt-C01/out/demo1_test.go", "refresh merge aliases the stored session (memory store): a forged refresh answer is visible to a second check interleaved during validation, or after a key-lookup failure plus a RemoveSession failure"),
    ("C01-m2", "C01", "/tmp/wt-C01/out/mutant2.diff", "/tmp/wt-C01/out/demo2_test.go", "with access-token forwarding the ID-token expiry is no longer checked: needs an ID token that expires before the access token, or a refresh answer without id_token followed by later checks"),
    ("C02-m1", "C02", "/tmp/wt-C02/out/mutant1.diff", "/tmp/wt-C02/out/demo1_test.go", "unvalidated refresh answer written into the live session object before validation (memory store only): needs a concurrent check at the validation gates or a failing RemoveSession"),
    ("C02-m2", "C02", "/tmp/rebase/C02-m2.diff", "/tmp/wt-C02/out/demo2_test.go", "a nonce claim that is present but not a string skips the nonce comparison: needs a correctly signed token with a numeric / boolean / array / object nonce"),
    ("C03-m1", "C03", "/tmp/wt-C03/out/mutant1.diff", "/tmp/wt-C03/out/demo1_test.go", "requested URL rebuilt through url.URL re-escapes '%': needs an originally requested path with a percent-escape and a complete login"),
    ("C03-m2", "C03", "/tmp/wt-C03/out/mutant2.diff", "/tmp/wt-C03/out/demo2_test.go", "tokens considered expired 30 s early: needs no refresh token and a request in the last 30 s of validity (or short-lived tokens)"),
    ("C04-m1", "C04", "/tmp/wt-C04/out/mutant1.diff", "/tmp/wt-C04/out/demo1_test.go", "token-request form shared between handlers: needs two callbacks truly overlapping inside a gate-free region (a data race)"),
    ("C04-m2", "C04", "/tmp/wt-C04/out/mutant2.diff", "/tmp/wt-C04/out/demo2_test.go", "state compared case-insensitively: needs a callback whose state differs from the issued one only in letter case"),
    ("C05-m1", "C05", "/tmp/rebase/C05-m1.diff", "/tmp/wt-C05/out/demo1_test.go", "a pending session id presented on an application path is re-issued instead of renewed"),
    ("C05-m2", "C05", "/tmp/wt-C05/out/mutant2.diff", "/tmp/wt-C05/out/demo2_test.go", "logout expires the default cookie name: needs a configured cookie_name_prefix and a logout"),
    ("C06-m1", "C06", "/tmp/wt-C06/out/mutant1.diff", "/tmp/wt-C06/out/demo1_test.go", "state / nonce / verifier of a pending login carried into the regenerated session: needs a second non-callback request with the pending cookie"),
    ("C06-m2", "C06", "/tmp/wt-C06/out/mutant2.diff", "/tmp/wt-C06/out/demo2_test.go", "generated values cached per request id for 5 s: needs two clients sending the same x-request-id within the window"),
    ("C07-m1", "C07", "/tmp/wt-C07/out/mutant1.diff", "/tmp/wt-C07/out/demo1_test.go", "query/fragment split only when the target contains '?': needs a fragment-only target such as /secret#.css"),
    ("C07-m2", "C07", "/tmp/wt-C07/out/mutant2.diff", "/tmp/wt-C07/out/demo2_test.go", "an exclusion in one rule vetoes every other rule: needs two rules, one excluding and one including the path"),
    ("C07-m3", "C07", "/tmp/wt-C07/out/mutant3.diff", "/tmp/wt-C07/out/demo3_test.go", "fragment found with LastIndex: needs two '#' and no '?' before the last one"),
    ("C08-m1", "C08", "/tmp/wt-C08/out/mutant1.diff", "/tmp/wt-C08/out/demo1_test.go", "evaluation does not stop at the first denial: needs a denying filter followed by an allowing last filter"),
    ("C08-m2", "C08", "/tmp/wt-C08/out/mutant2.diff", "/tmp/wt-C08/out/demo2_test.go", "chains without criterion moved to the end: needs a criterion-less chain before a matching chain with a different verdict"),
    ("C09-m1", "C09", "/tmp/wt-C09/out/mutant1.diff", "/tmp/wt-C09/out/demo1_test.go", "Redis RemoveSession swallows a failed DEL: needs a fault at the Redis command of the logout's removal"),
    ("C09-m2", "C09", "/tmp/wt-C09/out/mutant2.diff", "/tmp/wt-C09/out/demo2_test.go", "logout expires the default cookie name: needs cookie_name_prefix and a logout"),
    ("C10-m1", "C10", "/tmp/wt-C10/out/mutant1.diff", "/tmp/wt-C10/out/demo1_test.go", "Redis: activity in the last idle window before the absolute limit carries the session past it: needs both timeouts and accesses either side of the limit"),
    ("C10-m2", "C10", "/tmp/wt-C10/out/mutant2.diff", "/tmp/wt-C10/out/demo2_test.go", "start-up wiring clamps idle to absolute and forgets 0 = unlimited: needs (absolute 0, idle > 0) through the factory"),
    ("C11-m1", "C11", "/tmp/wt-C11/out/mutant1.diff", "/tmp/wt-C11/out/demo1_test.go", "merge keeps the old refresh token: needs a rotating provider and a second token lifetime"),
    ("C11-m2", "C11", "/tmp/wt-C11/out/mutant2.diff", "/tmp/wt-C11/out/demo2_test.go", "merge aliases the stored session: needs a refresh answer that fails validation and a concurrent / following check"),
    ("C12-m1", "C12", "/tmp/wt-C12/out/mutant1.diff", "/tmp/wt-C12/out/demo1_test.go", "Redis store remembers per instance which ids it stamped: needs write via replica A, remove via B (or expiry), write via A again"),
    ("C12-m2", "C12", "/tmp/rebase/C12-m2.diff", "/tmp/wt-C12/out/demo2_test.go", "memory store set() releases the lock between reading and swapping the session: needs two operations on one id overlapping inside a Set"),
    ("C13-m1", "C13", "/tmp/wt-C13/out/mutant1.diff", "/tmp/wt-C13/out/demo1_test.go", "requested URL double-escapes '%': needs a percent-escape in the first requested path and a full login"),
    ("C13-m2", "C13", "/tmp/rebase/C13-m2.diff", "/tmp/wt-C13/out/demo2_test.go", "login Location encoded with PathEscape: needs configured or issued values containing & = + $ : @"),
    ("C14-m1", "C14", "/tmp/wt-C14/out/mutant1.diff", "/tmp/wt-C14/out/demo1_test.go", "id_token_hint appended to the logout redirect: needs a complete login followed by logout"),
    ("C14-m2", "C14", "/tmp/wt-C14/out/mutant2.diff", "/tmp/wt-C14/out/demo2_test.go", "pooled buffer not reset after a transport failure: needs the token endpoint to drop the connection, then the login redirect of the same or the next request"),
    ("C15-m1", "C15", "/tmp/wt-C15/out/mutant1.diff", "/tmp/wt-C15/out/demo1_test.go", "token redaction slices 1-3 character tokens out of range: needs a token-endpoint body with a very short access or refresh token"),
    ("C15-m2", "C15", "/tmp/wt-C15/out/mutant2.diff", "/tmp/wt-C15/out/demo2_test.go", "cookie unquoting without length guard: needs a cookie whose value is a single double quote"),
    ("C17-m1", "C17", "/tmp/wt-C17/out/mutant1.diff", "/tmp/wt-C17/out/demo1_test.go", "default section cloned once for all overrides: needs a default plus two override filters that differ"),
    ("C17-m2", "C17", "/tmp/wt-C17/out/mutant2.diff", "/tmp/wt-C17/out/demo2_test.go", "callback/logout path check done per fragment before merging: needs callback in the default and an equal logout path in the override"),
    ("C18-m1", "C18", "/tmp/wt-C18/out/mutant1.diff", "/tmp/wt-C18/out/demo1_test.go", "nested default settings shared between override-based filters: needs default_oidc_config with nested settings and two overrides"),
    ("C18-m2", "C18", "/tmp/wt-C18/out/mutant2.diff", "/tmp/wt-C18/out/demo2_test.go", "Redis clients reused per server address ignoring the database number: needs two filters on one Redis host with different DBs"),
    ("C19-m1", "C19", "/tmp/wt-C19/out/mutant1.diff", "/tmp/wt-C19/out/demo1_test.go", "reconcile of a missing Secret drops it from the index: needs reconcile-while-absent, then create, then reconcile"),
    ("C19-m2", "C19", "/tmp/wt-C19/out/mutant2.diff", "/tmp/wt-C19/out/demo2_test.go", "a Secret being deleted (held by a finalizer) that still has data is applied"),
    ("C20-m1", "C20", "/tmp/wt-C20/out/mutant1.diff", "/tmp/wt-C20/out/demo1_test.go", "CA reload swaps in a cloned tls.Config: clients built earlier keep the old roots; pooled object identity changes"),
    ("C20-m2", "C20", "/tmp/wt-C20/out/mutant2.diff", "/tmp/wt-C20/out/demo2_test.go", "pool key ignores the string form of skip_verify: needs skip \"true\" (string) loaded before an explicit false without CA"),
]


def sh(cmd, **kw):
    p = subprocess.run(cmd, shell=True, capture_output=True, text=True, **kw)
    return p.returncode, (p.stdout + p.stderr)


def one(seed):
    sid, prop, patch, demo, needs = seed
    d = os.path.join(VERIF, "seeded", sid)
    os.makedirs(d, exist_ok=True)
    meta = {"id": sid, "property": prop, "needs_to_manifest": needs, "source": "independent sub-agent given only the property text and a scratch worktree"}
    # verification: on current HEAD when the patch and the demo apply there, else on the commit the agent worked on
    wt = os.path.dirname(os.path.dirname(patch)) if patch.startswith("/tmp/wt") else "/tmp/wt-" + prop
    rc, base = sh("git -C %s rev-parse HEAD" % wt)
    base = base.strip() if rc == 0 else "HEAD"
    rc, out = sh("/verif/bin/seedverify %s %s HEAD" % (patch, demo))
    verified_on = "HEAD"
    if "VERIFIED" not in out:
        orig = patch if not patch.startswith("/tmp/rebase/") else "/tmp/wt-%s/out/mutant%s.diff" % (prop, sid[-1])
        rc, out2 = sh("/verif/bin/seedverify %s %s %s" % (orig, demo, base))
        meta["verification_on_head"] = out.strip().splitlines()[-1] if out.strip() else "no output"
        out, verified_on = out2, base[:7]
        if orig != patch:
            shutil.copy(orig, os.path.join(d, "patch.original.diff"))
    meta["verified"] = "VERIFIED" in out
    meta["verification"] = {"on_commit": verified_on, "result": out.strip().splitlines()[-1] if out.strip() else "", "command": "bin/seedverify <patch> <demo> <commit>"}
    rc, out = sh("/verif/bin/seedtest %s %s quick" % (patch, prop))
    lines = [l for l in out.splitlines() if l.startswith(("VIOLATION", "  monitor", "OK", "INFRA", "PATCH", "EXIT"))]
    meta["check"] = {"command": "bin/seedtest seeded/%s/patch.diff %s" % (sid, prop), "exit": rc, "detected": rc == 1, "output": lines[:12]}
    shutil.copy(patch, os.path.join(d, "patch.diff"))
    shutil.copy(demo, os.path.join(d, "demo_test.go.txt"))
    with open(os.path.join(d, "meta.json"), "w") as fh:
        json.dump(meta, fh, indent=1)
    return sid, meta["verified"], rc


def main():
    want = set(sys.argv[1:])
    seeds = [s for s in SEEDS if not want or s[0] in want]
    with concurrent.futures.ThreadPoolExecutor(max_workers=3) as ex:
        for sid, ver, rc in ex.map(one, seeds):
            print("%s verified=%s check_exit=%s" % (sid, ver, rc), flush=True)


if __name__ == "__main__":
    main()
