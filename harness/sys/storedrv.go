package zzverif

// Store-level driver (C12, C10): operation sequences on the real memory and Redis stores under a virtual clock.
// Every operation is logged with its result and with the projected real state (probe) of the touched session.

import (
	"bufio"
	"context"
	"encoding/json"
	"fmt"
	"os"
	"runtime"
	"strings"
	"sync"
	"sync/atomic"
	"time"

	"github.com/alicebob/miniredis/v2"
	mrserver "github.com/alicebob/miniredis/v2/server"
	"github.com/redis/go-redis/v9"

	"github.com/istio-ecosystem/authservice/internal/oidc"
)

type StoreOp struct {
	Op    string `json:"op"`    // SetTok GetTok SetAuth GetAuth ClearAuth Remove tick sweep
	Sid   string `json:"sid"`   // s1, s2, ...
	V     int    `json:"v"`     // value index (SetTok/SetAuth) or seconds (tick)
	Via   int    `json:"via"`   // which store instance (Redis: two replicas attached to one server)
	Fault int    `json:"fault"` // Redis: the k-th Redis command this operation issues fails (0 = none)
	Thr   int    `json:"thr"`   // concurrent scenarios: goroutine index
}

type StoreScenario struct {
	ID    string    `json:"id"`
	Store string    `json:"store"`
	Abs   int       `json:"abs"`
	Idle  int       `json:"idle"`
	Ops   []StoreOp `json:"ops"`
	Conc  bool      `json:"conc"` // run Thr groups concurrently (memory-store linearizability)
	Post  []StoreOp `json:"post"` // concurrent scenarios: operations run one after the other once every goroutine has finished (they read the final state)
	Pre   []StoreOp `json:"pre"`  // concurrent scenarios: operations and clock advances run one after the other before the goroutines start
}

type storeDriver struct {
	rec   *recorder
	now   int64
	mu    sync.Mutex
	toks  []*oidc.TokenResponse
	auths []*oidc.AuthorizationState
}

func newStoreDriver(out string) (*storeDriver, error) {
	rec, err := newRecorder(out)
	if err != nil {
		return nil, err
	}
	d := &storeDriver{rec: rec}
	jitter := os.Getenv("VERIF_CLOCK_JITTER") != ""
	var tick atomic.Uint64
	oidc.VerifSetNow(func() time.Time {
		if jitter {
			// concurrent histories: reading the clock takes a while now and then, which widens whatever window a store
			// operation leaves open between reading and writing its state (no effect while the store's lock is held)
			if n := tick.Add(1); n%3 == 0 {
				time.Sleep(time.Duration(200+(n*7919)%1500) * time.Microsecond)
			}
		}
		d.mu.Lock()
		defer d.mu.Unlock()
		return baseTime.Add(time.Duration(d.now) * time.Second)
	})
	for i := 1; i <= 4; i++ {
		exp := baseTime.Unix() + 1_000_000
		if i == 4 {
			exp = baseTime.Unix() + 6 // one value's ID token expires early in every history: a store keeps what it was given, expired or not
		}
		tok, _ := mintID(tokenSpec{Class: "good", Sub: "u", Aud: "c", Exp: exp, Iat: baseTime.Unix(), Jti: fmt.Sprintf("tok-%d", i), Variant: i})
		tr := &oidc.TokenResponse{IDToken: tok, AccessToken: fmt.Sprintf("at-%d", i), RefreshToken: fmt.Sprintf("rt-%d", i),
			AccessTokenExpiresAt: baseTime.Add(time.Duration(1000+i) * time.Second)}
		// the values differ in which optional members they carry, so that a member of an earlier write that survives an overwrite shows
		switch i {
		case 2:
			tr.AccessTokenExpiresAt, tr.RefreshToken = time.Time{}, "" // access token without expiry, no refresh token
		case 3:
			tr.AccessToken, tr.AccessTokenExpiresAt = "", time.Time{} // ID and refresh token only
		}
		d.toks = append(d.toks, tr)
		d.auths = append(d.auths, &oidc.AuthorizationState{State: fmt.Sprintf("state-%d", i), Nonce: fmt.Sprintf("nonce-%d", i),
			RequestedURL: fmt.Sprintf("https://app.test/u%d", i), CodeVerifier: fmt.Sprintf("verifier-%d", i)})
	}
	return d, nil
}

func (d *storeDriver) tokIndex(t *oidc.TokenResponse) int {
	if t == nil {
		return 0
	}
	for i, x := range d.toks {
		if x.IDToken == t.IDToken {
			if x.AccessToken == t.AccessToken && x.RefreshToken == t.RefreshToken && x.AccessTokenExpiresAt.Equal(t.AccessTokenExpiresAt) {
				return i + 1
			}
			return -(i + 1) // torn: members of different writes
		}
	}
	return -99
}

func (d *storeDriver) authIndex(a *oidc.AuthorizationState) int {
	if a == nil {
		return 0
	}
	for i, x := range d.auths {
		if x.State == a.State {
			if *x == *a {
				return i + 1
			}
			return -(i + 1)
		}
	}
	return -99
}

func (d *storeDriver) nowSec() int64 {
	d.mu.Lock()
	defer d.mu.Unlock()
	return d.now
}

func floorSec(t time.Time) int64 {
	dd := t.Sub(baseTime)
	s := int64(dd / time.Second)
	if dd%time.Second < 0 {
		s--
	}
	return s
}

func (d *storeDriver) probe(st oidc.SessionStore, mr *miniredis.Miniredis, sid string) map[string]any {
	out := map[string]any{"known": true, "ex": false, "auth": false, "tok": false, "membersKnown": true, "created": 0, "createdKnown": true, "ttl": -1}
	if p := oidc.VerifProbeMemory(st, sid); p.Known {
		out["ex"], out["auth"], out["tok"], out["membersKnown"], out["createdKnown"] = p.Ex, p.Auth, p.Tok, p.MembersKnown || !p.Ex, p.TimesKnown || !p.Ex
		if p.Ex && p.TimesKnown {
			out["created"] = floorSec(p.Added)
		}
		return out
	}
	if mr == nil {
		out["known"] = false // an in-memory store whose private structure the probe does not recognise: results alone are judged
		out["membersKnown"], out["createdKnown"] = false, false
		return out
	}
	if mr != nil {
		knownTok := func(v string) bool {
			for _, t := range d.toks {
				if t.IDToken == v {
					return true
				}
			}
			return false
		}
		knownAuth := func(v string) bool {
			for _, a := range d.auths {
				if a.State == v {
					return true
				}
			}
			return false
		}
		p := projectRedis(mr, 0, sid, knownTok, knownAuth)
		out["ex"], out["auth"], out["tok"] = p.ex, p.auth, p.tok
		if p.ex {
			out["createdKnown"] = p.createdKnown
			if p.createdKnown {
				out["created"] = floorSec(p.created)
			}
			out["ttl"] = p.ttl
		}
	}
	return out
}

type redisProjection struct {
	ex, auth, tok, createdKnown bool
	created                     time.Time
	ttl                         int64
}

// projectRedis reads the session's projected state out of the Redis server without going through the store (a store
// read counts as a use). It does not depend on how the store names its keys and hash fields: the session's key is the
// one whose name ends in the session id, a member is present when some field holds a value known to be an ID token /
// a login state, the creation time is the earliest time held in a field.
func projectRedis(mr *miniredis.Miniredis, db int, sid string, isTok, isState func(string) bool) redisProjection {
	var p redisProjection
	m := mr.DB(db)
	for _, k := range m.Keys() {
		if k != sid && !strings.HasSuffix(k, sid) {
			continue
		}
		fields, err := m.HKeys(k)
		if err != nil {
			continue
		}
		p.ex = true
		p.ttl = int64(m.TTL(k) / time.Second)
		for _, f := range fields {
			v := m.HGet(k, f)
			switch {
			case isTok(v):
				p.tok = true
			case isState(v):
				p.auth = true
			case containsKnown(v, isTok):
				p.tok = true // (the token inside a structured member, e.g. JSON)
			case containsKnown(v, isState):
				p.auth = true
			default:
				// the creation time is the earliest time the session holds (a token's expiry lies after the write that stored it)
				if t, err := time.Parse(time.RFC3339Nano, v); err == nil && (!p.createdKnown || t.Before(p.created)) {
					p.created, p.createdKnown = t, true
				}
			}
		}
	}
	return p
}

func (d *storeDriver) run(sc *StoreScenario) error {
	d.mu.Lock()
	d.now = 0
	d.mu.Unlock()
	var (
		stores []oidc.SessionStore
		mr     *miniredis.Miniredis
	)
	abs, idle := time.Duration(sc.Abs)*time.Second, time.Duration(sc.Idle)*time.Second
	switch sc.Store {
	case "memory":
		stores = []oidc.SessionStore{oidc.NewMemoryStore(&oidc.Clock{}, abs, idle)}
	case "redis":
		var err error
		if mr, err = miniredis.Run(); err != nil {
			return err
		}
		defer mr.Close()
		mr.SetTime(baseTime)
		for i := 0; i < 2; i++ {
			cl := redis.NewClient(&redis.Options{Addr: mr.Addr()})
			defer cl.Close()
			st, err := oidc.NewRedisStore(&oidc.Clock{}, cl, abs, idle)
			if err != nil {
				return err
			}
			stores = append(stores, st)
		}
	default:
		return fmt.Errorf("unknown store %q", sc.Store)
	}
	if os.Getenv("VERIF_ANNOUNCE") != "" {
		fmt.Fprintf(os.Stderr, "VERIF-SCENARIO %s\n", sc.ID)
	}
	d.rec.emit(map[string]any{"ev": "sreset", "scenario": sc.ID, "store": sc.Store, "abs": sc.Abs, "idle": sc.Idle, "conc": sc.Conc})
	ctx := context.Background()
	type heldRead struct {
		tok  *oidc.TokenResponse
		auth *oidc.AuthorizationState
		idx  int
	}
	var held []heldRead
	do := func(op StoreOp, thr int) {
		st := stores[op.Via%len(stores)]
		ev := map[string]any{"ev": "sop", "op": op.Op, "sid": op.Sid, "v": op.V, "via": op.Via % len(stores), "thr": thr, "res": 0, "err": false,
			"faultHit": false, "mutated": 0}
		var hit *bool
		if op.Fault > 0 && mr != nil && !sc.Conc {
			hit = new(bool)
			n, k := 0, op.Fault
			mr.Server().SetPreHook(func(c *mrserver.Peer, cmd string, args ...string) bool {
				n++
				if n == k {
					*hit = true
					c.WriteError("ERR verif: injected redis command fault")
					return true
				}
				return false
			})
		}
		if sc.Conc {
			d.rec.emit(map[string]any{"ev": "sinv", "op": op.Op, "sid": op.Sid, "v": op.V, "thr": thr})
		}
		var err error
		switch op.Op {
		case "SetTok":
			err = st.SetTokenResponse(ctx, op.Sid, d.toks[op.V-1])
		case "SetAuth":
			err = st.SetAuthorizationState(ctx, op.Sid, d.auths[op.V-1])
		case "GetTok":
			var t *oidc.TokenResponse
			t, err = st.GetTokenResponse(ctx, op.Sid)
			ev["res"] = d.tokIndex(t)
			if t != nil && !sc.Conc {
				held = append(held, heldRead{tok: t, idx: d.tokIndex(t)})
			}
		case "GetAuth":
			var a *oidc.AuthorizationState
			a, err = st.GetAuthorizationState(ctx, op.Sid)
			ev["res"] = d.authIndex(a)
			if a != nil && !sc.Conc {
				held = append(held, heldRead{auth: a, idx: d.authIndex(a)})
			}
		case "ClearAuth":
			err = st.ClearAuthorizationState(ctx, op.Sid)
		case "Remove":
			err = st.RemoveSession(ctx, op.Sid)
		case "sweep":
			err = st.RemoveAllExpired(ctx)
		case "flood":
			// op.V other sessions are created (a busy service holds thousands): ids do not interfere
			for k := 0; k < op.V && err == nil; k++ {
				err = st.SetAuthorizationState(ctx, fmt.Sprintf("flood-%s-%d", op.Sid, k), d.auths[k%len(d.auths)])
			}
		}
		if hit != nil {
			mr.Server().SetPreHook(nil)
			ev["faultHit"] = *hit
		}
		// what earlier reads returned are values: they do not change when the store is written later
		for i := range held {
			now := 0
			if held[i].tok != nil {
				now = d.tokIndex(held[i].tok)
			} else {
				now = d.authIndex(held[i].auth)
			}
			if now != held[i].idx && ev["mutated"] == 0 {
				ev["mutated"] = 1
				held[i].idx = now
			}
		}
		if len(held) > 6 {
			held = held[len(held)-6:]
		}
		ev["err"] = err != nil
		ev["now"] = d.nowSec()
		if !sc.Conc {
			ev["probe"] = d.probe(st, mr, op.Sid)
		} else {
			ev["ev"] = "sret"
		}
		d.rec.emit(ev)
	}
	tick := func(op StoreOp) {
		d.mu.Lock()
		d.now += int64(op.V)
		now := d.now
		d.mu.Unlock()
		if mr != nil {
			mr.FastForward(time.Duration(op.V) * time.Second)
			mr.SetTime(baseTime.Add(time.Duration(now) * time.Second))
		}
		// `all`: the advance is longer than a configured limit, so every session written before it has timed out
		all := (sc.Abs > 0 && op.V > sc.Abs) || (sc.Idle > 0 && op.V > sc.Idle)
		d.rec.emit(map[string]any{"ev": "stick", "now": now, "all": all})
	}
	if sc.Conc {
		for _, op := range sc.Pre {
			if op.Op == "tick" {
				tick(op)
				continue
			}
			do(op, 0)
		}
		groups := map[int][]StoreOp{}
		for _, op := range sc.Ops {
			groups[op.Thr] = append(groups[op.Thr], op)
		}
		var wg sync.WaitGroup
		start := make(chan struct{})
		// a spin barrier after the channel: the goroutines leave it within a few instructions of one another, so that
		// their first calls really overlap (a closed channel alone wakes them one scheduler tick apart)
		var arrived atomic.Int32
		want := int32(len(groups))
		for thr, ops := range groups {
			wg.Add(1)
			go func(thr int, ops []StoreOp) {
				defer wg.Done()
				<-start
				arrived.Add(1)
				for arrived.Load() < want {
					runtime.Gosched()
				}
				for _, op := range ops {
					do(op, thr)
				}
			}(thr, ops)
		}
		close(start)
		wg.Wait()
		for _, op := range sc.Post {
			do(op, 0)
		}
		d.rec.emit(map[string]any{"ev": "send", "scenario": sc.ID})
		return nil
	}
	for _, op := range sc.Ops {
		if op.Op == "tick" {
			tick(op)
			continue
		}
		do(op, 0)
	}
	d.rec.emit(map[string]any{"ev": "send", "scenario": sc.ID})
	return nil
}

func runStoreFile(in, out string) (int, error) {
	f, err := os.Open(in)
	if err != nil {
		return 0, err
	}
	defer f.Close()
	d, err := newStoreDriver(out)
	if err != nil {
		return 0, err
	}
	defer d.rec.close()
	sc := bufio.NewScanner(f)
	sc.Buffer(make([]byte, 1<<20), 1<<26)
	n := 0
	for sc.Scan() {
		line := strings.TrimSpace(sc.Text())
		if line == "" {
			continue
		}
		var s StoreScenario
		if err := json.Unmarshal([]byte(line), &s); err != nil {
			return n, err
		}
		if err := d.run(&s); err != nil {
			return n, fmt.Errorf("scenario %s: %w", s.ID, err)
		}
		n++
	}
	return n, sc.Err()
}

// containsKnown: does a structured member (JSON, a joined string) carry a value the predicate knows? The candidates are
// the quoted strings and the separator-delimited pieces of v.
func containsKnown(v string, known func(string) bool) bool {
	for _, piece := range strings.FieldsFunc(v, func(r rune) bool {
		return r == '"' || r == ',' || r == ';' || r == '|' || r == ' ' || r == '{' || r == '}' || r == '[' || r == ']'
	}) {
		if known(piece) {
			return true
		}
	}
	return false
}
