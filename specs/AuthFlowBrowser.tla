-------------------------- MODULE AuthFlowBrowser --------------------------
(***************************************************************************)
(* C03 at design level: an unauthenticated browser that simply follows the *)
(* redirects, against a compliant provider and without faults, is answered *)
(* OK on the URL it first asked for after ONE pass through the provider.   *)
(* The browser is a process on top of AuthFlow: it issues the requests a   *)
(* user agent would issue, in order, and looks at the answers.             *)
(*   OnePass    (invariant): the provider is visited at most once;         *)
(*   LoginEnds  (liveness, weak fairness): the browser eventually gets OK. *)
(* With NoExpiresInMeansExpired = TRUE (the pinned tree before 877be3f)    *)
(* both fail for the answer without expires_in and without refresh token:  *)
(* the browser is sent to the provider again after every callback.         *)
(***************************************************************************)
EXTENDS AuthFlow

VARIABLE br    \* [at, sid, code, visits, c]
bvars == <<vars, br>>

BInit == Init /\ br = [at |-> "want", sid |-> NoSid, code |-> 0, visits |-> 0, c |-> 0]

FreeCheck == IF \E c \in Checks : pcs[c] = "idle" THEN CHOOSE c \in Checks : pcs[c] = "idle" /\ \A d \in Checks : d < c => pcs[d] # "idle" ELSE 0

\* the browser asks for the application URL with whatever cookie it holds
Want ==
  /\ br.at = "want" /\ FreeCheck # 0
  /\ Start(FreeCheck, "app", 1, br.sid, 0, 0)
  /\ br' = [br EXCEPT !.at = "waitApp", !.c = FreeCheck]

\* it looks at the answer: OK ends the story, a login redirect carries the new cookie and leads to the provider
SeeApp ==
  /\ br.at = "waitApp" /\ pcs[br.c] = "done"
  /\ br' = IF out[br.c] = "ok" THEN [br EXCEPT !.at = "done"]
           ELSE IF out[br.c] = "authorize" THEN [br EXCEPT !.at = "idp", !.sid = nextSid - 1]
           ELSE [br EXCEPT !.at = "stuck"]
  /\ UNCHANGED vars

\* the provider authenticates the user and sends the browser to the callback with a code
VisitIdp ==
  /\ br.at = "idp"
  /\ Authorize(br.sid)
  /\ br' = [br EXCEPT !.at = "callback", !.code = nextCode, !.visits = @ + 1]

Callback ==
  /\ br.at = "callback" /\ FreeCheck # 0
  /\ Start(FreeCheck, "callback", 1, br.sid, br.sid, br.code)
  /\ br' = [br EXCEPT !.at = "waitCb", !.c = FreeCheck]

SeeCb ==
  /\ br.at = "waitCb" /\ pcs[br.c] = "done"
  /\ br' = IF out[br.c] = "app" THEN [br EXCEPT !.at = "want"] ELSE [br EXCEPT !.at = "stuck"]
  /\ UNCHANGED vars

\* the service's own steps; the provider is compliant: it answers every exchange successfully, in any of its shapes
Serve == \E c \in Checks :
  /\ (\/ LogoutRemove(c) \/ GetTok(c) \/ RedirRemoveOld(c) \/ RedirSetAuth(c) \/ CbGetAuth(c) \/ CbClear(c) \/ CbSetTok(c)
      \/ RfGetAuth(c) \/ RfSetTok(c) \/ CbJwks(c, TRUE) \/ RfJwks(c, TRUE)
      \/ \E a \in {"ok", "okNoRt", "okNoExpNoRt"} : CbExchange(c, a)
      \/ \E a \in {"ok", "okRotate"} : RfExchange(c, a))
  /\ UNCHANGED br

BNext == Want \/ SeeApp \/ VisitIdp \/ Callback \/ SeeCb \/ Serve
BSpec == BInit /\ [][BNext]_bvars /\ WF_bvars(BNext)

OnePass   == br.visits <= 1
NotStuck  == br.at # "stuck"
LoginEnds == <>(br.at = "done")
=============================================================================
