package zzverif

import (
	"bufio"
	"context"
	"encoding/json"
	"fmt"
	"net/url"
	"os"
	"runtime/debug"
	"strings"
	"sync"
	"time"

	mrserver "github.com/alicebob/miniredis/v2/server"
	envoy "github.com/envoyproxy/go-control-plane/envoy/service/auth/v3"
	corev1 "k8s.io/api/core/v1"
	metav1 "k8s.io/apimachinery/pkg/apis/meta/v1"
	"k8s.io/apimachinery/pkg/types"
	ctrl "sigs.k8s.io/controller-runtime"

	"github.com/istio-ecosystem/authservice/internal/oidc"
)

// probe reads the real store's content for sid without side effects.
func (d *driver) probe(s *spyStore, sid string, filter string) map[string]any {
	onlyDB, onlySrv := -1, ""
	if f := d.env.fspec[filter]; f != nil {
		onlyDB, onlySrv = 0, f.Store
		if i := strings.Index(f.Store, "#"); i >= 0 {
			_, _ = fmt.Sscanf(f.Store[i+1:], "%d", &onlyDB)
			onlySrv = f.Store[:i]
		}
	}
	out := map[string]any{"known": false, "ex": false, "auth": false, "tok": false}
	if p := oidc.VerifProbeMemory(s.real, sid); p.Known {
		out["known"], out["ex"], out["auth"], out["tok"] = true, p.Ex, p.Auth, p.Tok
		if p.Ex && p.TimesKnown {
			out["added"], out["accessed"] = d.relSec(p.Added), d.relSec(p.Accessed)
		}
		return out
	}
	if isR, _, _ := oidc.VerifIsRedis(s.real); isR {
		for name, srv := range d.env.mr {
			if onlySrv != "" && name != onlySrv {
				continue
			}
			for db := 0; db < 3; db++ {
				if onlyDB >= 0 && db != onlyDB {
					continue
				}
				// (independent of how the store names keys and fields, see projectRedis)
				p := projectRedis(srv, db, sid, func(v string) bool { _, ok := d.rec.lookup("id", v); return ok },
					func(v string) bool { _, ok := d.rec.lookup("st", v); return ok })
				if !p.ex {
					continue
				}
				out["known"], out["ex"], out["auth"], out["tok"], out["ttl"] = true, true, p.auth, p.tok, p.ttl
				return out
			}
		}
		out["known"] = true
	}
	return out
}

// failRedisCommand makes the k-th Redis command received from now on fail (all miniredis instances of the scenario).
func (d *driver) failRedisCommand(k int) *bool {
	hit := new(bool)
	n := 0
	for _, m := range d.env.mr {
		m.Server().SetPreHook(func(c *mrserver.Peer, cmd string, args ...string) bool {
			n++
			if n == k {
				*hit = true
				c.WriteError("ERR verif: injected redis command fault")
				return true
			}
			return false
		})
	}
	return hit
}

// holdAfterRedisCommand arms the command hook: after k commands of the running store call the next one parks as a gate of
// the check (kind "rediscmd"); commands of other checks pass. Returns the trace position at which the call parked.
func (d *driver) holdAfterRedisCommand(c *checkRun, k int) *int {
	lin := new(int)
	n := 0
	armed := true
	var mu sync.Mutex
	for _, m := range d.env.mr {
		m.Server().SetPreHook(func(p *mrserver.Peer, cmd string, args ...string) bool {
			mu.Lock()
			if !armed {
				mu.Unlock()
				return false
			}
			n++
			if n <= k {
				mu.Unlock()
				return false
			}
			armed = false
			mu.Unlock()
			d.rec.mu.Lock()
			*lin = d.rec.n
			d.rec.mu.Unlock()
			d.rec.emit(map[string]any{"ev": "noop", "c": "hold:" + c.id})
			g := &gate{check: c, kind: "rediscmd", release: make(chan Directive)}
			d.arrived <- g
			<-g.release
			return false
		})
	}
	return lin
}

func (d *driver) clearRedisHook() {
	for _, m := range d.env.mr {
		m.Server().SetPreHook(nil)
	}
}

// shapeRequest deforms a request into one of the protobuf-level shape classes of Shapes.tla.
func shapeRequest(shape string, req *envoy.CheckRequest, cname string) *envoy.CheckRequest {
	h := req.Attributes.Request.Http
	switch shape {
	case "nilAttributes":
		return &envoy.CheckRequest{}
	case "nilRequest":
		return &envoy.CheckRequest{Attributes: &envoy.AttributeContext{}}
	case "nilHttp":
		return &envoy.CheckRequest{Attributes: &envoy.AttributeContext{Request: &envoy.AttributeContext_Request{}}}
	case "nilHeaders":
		h.Headers = nil
	case "emptyPath":
		h.Path = ""
	case "noHost":
		h.Host = ""
	case "noScheme":
		h.Scheme = ""
	case "cookieNoEquals":
		h.Headers["cookie"] = cname
	case "cookieEmptyValue":
		h.Headers["cookie"] = cname + "="
	case "cookieManyEquals":
		h.Headers["cookie"] = cname + "=a=b=c"
	case "cookieOnlySemis":
		h.Headers["cookie"] = ";;; ;"
	case "cookieHuge":
		h.Headers["cookie"] = cname + "=" + strings.Repeat("A", 1<<16)
	case "cookieBinary":
		h.Headers["cookie"] = cname + "=\x00\xff\xfe\r\n"
	case "cookieDuplicate":
		h.Headers["cookie"] = cname + "=one; " + cname + "=two"
	case "cookieLoneQuote":
		h.Headers["cookie"] = cname + "=\""
	case "cookieOtherLoneQuote":
		h.Headers["cookie"] = "pref=\"; " + h.Headers["cookie"]
	case "cookieQuoted":
		h.Headers["cookie"] = cname + "=\"quoted-value\""
	case "cookieUnbalancedQuote":
		h.Headers["cookie"] = cname + "=\"abc"
	case "cookieEmptyQuotes":
		h.Headers["cookie"] = cname + "=\"\""
	case "cookieWhitespace":
		h.Headers["cookie"] = "  \t " + cname + " = \t v ;  ; =x; y= "
	case "cookieCommaSeparated":
		h.Headers["cookie"] = "a=b, " + cname + "=v, c=d"
	case "cookieUpperHeader":
		h.Headers["Cookie"] = h.Headers["cookie"]
		delete(h.Headers, "cookie")
	case "pathNoSlash":
		h.Path = "app?x"
	case "pathOnlyQuery":
		h.Path = "?state=a&code=b"
	case "pathOnlyFragment":
		h.Path = "#frag"
	case "pathHuge":
		h.Path = "/" + strings.Repeat("a/", 1<<14)
	case "pathBinary":
		h.Path = "/\x00\xff%00%ff?\x00=\xff"
	case "pathPctBad":
		h.Path = h.Path + "%zz%"
	case "hostWithPort":
		h.Host = appHost + ":443"
	case "hostOdd":
		h.Host = "[::1]:99999"
	case "sameSessionParallel":
		// (the request is not deformed: the shape marks checks whose store events interleave with those of other checks of the
		// same session in an order the trace does not fix; only the crash and leak monitors judge them)
	case "hostPortWord":
		h.Host = appHost + ":https"
	case "hostOpenBracket":
		h.Host = "[::1"
	case "hostUserinfo":
		h.Host = "user:pa%ss@" + appHost
	case "hostCRLF":
		h.Host = appHost + "\r\nx: y"
	case "hostColons":
		h.Host = "a:b:c"
	case "hostEmptyPort":
		h.Host = appHost + ":"
	case "queryFieldSet":
		h.Query = "a=b&state=x"
	case "methodOdd":
		h.Method = ""
	default:
		panic("unknown request shape " + shape)
	}
	return req
}

// browse lets a browser follow redirects from an application URL until it gets OK, gives up or exceeds maxHops.
func (d *driver) browse(st *Step) {
	br := d.browser(st.B)
	max := st.MaxHops
	if max == 0 {
		max = 8
	}
	f := d.env.fspec[st.F]
	if f == nil {
		f = &d.env.spec.Filters[0]
	}
	d.rec.emit(map[string]any{"ev": "browse", "phase": "begin", "b": st.B, "f": f.Name, "url": fmt.Sprintf("u%d", st.URL)})
	next := Step{Op: "check", B: st.B, F: f.Name, Kind: "app", Cookie: "jar", URL: st.URL, Ans: st.Ans}
	visits, hops, outcome := 0, 0, "gaveUp"
	for hops = 0; hops < max; hops++ {
		// the replica that serves this hop: the one named by the step, or (r < 0) a different one at every hop, as a load balancer may do
		next.R = st.R
		if st.R < 0 {
			next.R = hops
		}
		c := d.start(&next)
		d.finish(c)
		if c.resp == nil {
			outcome = "error"
			break
		}
		if c.resp.GetStatus().GetCode() == 0 && c.resp.GetDeniedResponse() == nil {
			outcome = "ok"
			if next.Kind != "app" {
				outcome = "okOnNonApp"
			}
			break
		}
		loc := br.lastLoc
		hasLoc := false
		for _, h := range c.resp.GetDeniedResponse().GetHeaders() {
			if strings.EqualFold(h.GetHeader().GetKey(), "location") {
				hasLoc = true
			}
		}
		if !hasLoc || c.resp.GetDeniedResponse().GetStatus().GetCode() != 302 {
			outcome = "denied"
			break
		}
		u, err := url.Parse(loc)
		if err != nil {
			outcome = "badLocation"
			break
		}
		au, _ := url.Parse(d.authzEndpoint(f))
		switch {
		case u.Host == au.Host && u.Path == au.Path:
			// visit to the provider: it authenticates the user and redirects to the callback
			visits++
			sidVal := br.jar[cookieName(f)]
			lg := d.logins[sidVal]
			if lg == nil {
				outcome = "noLoginGhost"
				hops = max
				continue
			}
			d.doAuthz(st.B, lg)
			next = Step{Op: "check", B: st.B, F: f.Name, Kind: "callback", Cookie: "jar", St: "jar", Code: "jar", Ans: st.Ans}
		case u.Host == appHost || u.Host == appHost+":443" || u.Host == appHost+":8443":
			// back to the application: must be one of the pool URLs (under the scheme and authority the browser used) to be followed faithfully
			idx := -1
			sch, hst := envelopeAuthority(d.env.spec.Env, "app")
			for i, p := range urlPool {
				if loc == sch+"://"+hst+p {
					idx = i
				}
			}
			if idx < 0 {
				outcome = "foreignLocation"
				hops = max
				continue
			}
			next = Step{Op: "check", B: st.B, F: f.Name, Kind: "app", Cookie: "jar", URL: idx, Ans: st.Ans}
			if idx != st.URL {
				outcome = "wrongURL"
			}
		default:
			outcome = "foreignLocation"
			hops = max
		}
	}
	d.rec.emit(map[string]any{"ev": "browse", "phase": "end", "b": st.B, "f": f.Name, "url": fmt.Sprintf("u%d", st.URL),
		"outcome": outcome, "idpVisits": visits, "hops": hops + 1})
}

// parallelFlows runs several browsers' login flows truly in parallel (no gates): each follows its redirects to OK.
func (d *driver) parallelFlows(st *Step) {
	d.parallel = true
	d.orphan = &checkRun{id: "orphan", n: 0, f: d.env.spec.Filters[0].Name}
	defer func() { d.parallel = false }()
	var wg sync.WaitGroup
	for i := 0; i < st.D; i++ {
		wg.Add(1)
		go func(i int) {
			defer wg.Done()
			b := fmt.Sprintf("p%d", i+1)
			f := d.env.spec.Filters[i%len(d.env.spec.Filters)]
			next := Step{Op: "check", B: b, F: f.Name, Kind: "app", Cookie: "jar", URL: i % len(urlPool), Ans: st.Ans}
			for hop := 0; hop < 5; hop++ {
				d.big.Lock()
				c, req := d.prepare(&next)
				d.big.Unlock()
				func() {
					defer func() {
						if r := recover(); r != nil {
							c.pan, c.stack = r, string(debug.Stack())
						}
					}()
					c.resp, c.err = d.env.filter.Check(context.WithValue(context.Background(), checkKey{}, c), req)
				}()
				d.big.Lock()
				d.finishCheck(c)
				br := d.browser(b)
				loc := br.lastLoc
				sidVal := br.jar[cookieName(&f)]
				lg := d.logins[sidVal]
				d.big.Unlock()
				if c.resp == nil || c.resp.GetDeniedResponse() == nil || c.resp.GetDeniedResponse().GetStatus().GetCode() != 302 {
					return
				}
				u, err := url.Parse(loc)
				au, _ := url.Parse(d.authzEndpoint(&f))
				switch {
				case err != nil:
					return
				case u.Host == au.Host && u.Path == au.Path && lg != nil:
					d.big.Lock()
					d.doAuthz(b, lg)
					d.big.Unlock()
					next = Step{Op: "check", B: b, F: f.Name, Kind: "callback", Cookie: "jar", St: "jar", Code: "jar", Ans: st.Ans}
				case u.Host == appHost:
					next = Step{Op: "check", B: b, F: f.Name, Kind: "app", Cookie: "jar", URL: i % len(urlPool), Ans: st.Ans}
				default:
					return
				}
			}
		}(i)
	}
	wg.Wait()
}

// hammer sends several requests carrying ONE session cookie truly in parallel (no gates), round after round: requests for the
// application and logouts on a session that is pending or (every fourth round) authenticated. Whatever the
// interleaving inside the stores, no request may crash.
func (d *driver) hammer(st *Step) {
	f := d.env.fspec[st.F]
	if f == nil {
		f = &d.env.spec.Filters[0]
	}
	const clients = 12
	for round := 0; round < st.D; round++ {
		b := fmt.Sprintf("h%d", round)
		// sequentially: a session for the browser, pending or (odd rounds) authenticated
		if round%4 == 3 {
			d.browse(&Step{Op: "browse", B: b, F: f.Name, URL: 1, Ans: st.Ans})
		} else {
			c := d.start(&Step{Op: "check", B: b, F: f.Name, Kind: "app", Cookie: "none", URL: 1, Ans: st.Ans})
			d.finish(c)
		}
		sid := d.browser(b).jar[cookieName(f)]
		if sid == "" {
			continue
		}
		d.parallel = true
		d.orphan = &checkRun{id: "orphan", n: 0, f: f.Name}
		d.jitter.Store(true)
		var wg sync.WaitGroup
		begin := make(chan struct{})
		for g := 0; g < clients; g++ {
			wg.Add(1)
			go func(g int) {
				defer wg.Done()
				kind := "app"
				if g%3 == 2 && f.Logout {
					kind = "logout"
				}
				next := Step{Op: "check", B: fmt.Sprintf("%s-%d", b, g), F: f.Name, Kind: kind, Cookie: "raw:" + sid, URL: g % len(urlPool), Ans: st.Ans, Shape: "sameSessionParallel"}
				d.big.Lock()
				c, req := d.prepare(&next)
				d.big.Unlock()
				<-begin
				func() {
					defer func() {
						if r := recover(); r != nil {
							c.pan, c.stack = r, string(debug.Stack())
						}
					}()
					c.resp, c.err = d.env.filter.Check(context.WithValue(context.Background(), checkKey{}, c), req)
				}()
				d.big.Lock()
				d.finishCheck(c)
				d.big.Unlock()
			}(g)
		}
		close(begin)
		wg.Wait()
		d.jitter.Store(false)
		d.parallel = false
	}
}

// storm: cookie-less requests for every filter of the configuration answered truly in parallel (six clients per filter, st.D
// requests each): every login redirect must carry its own filter's parameters, whatever else is being answered at the moment.
func (d *driver) storm(st *Step) {
	d.parallel = true
	d.orphan = &checkRun{id: "orphan", n: 0, f: d.env.spec.Filters[0].Name}
	defer func() { d.parallel = false }()
	var wg sync.WaitGroup
	begin := make(chan struct{})
	for fi := range d.env.spec.Filters {
		f := d.env.spec.Filters[fi]
		for g := 0; g < 6; g++ {
			wg.Add(1)
			go func(f FilterSpec, g int) {
				defer wg.Done()
				<-begin
				for k := 0; k < st.D; k++ {
					next := Step{Op: "check", B: fmt.Sprintf("s-%s-%d-%d", f.Name, g, k), F: f.Name, Kind: "app", Cookie: "none", URL: (g + k) % len(urlPool), Ans: st.Ans}
					d.big.Lock()
					c, req := d.prepare(&next)
					d.big.Unlock()
					func() {
						defer func() {
							if r := recover(); r != nil {
								c.pan, c.stack = r, string(debug.Stack())
							}
						}()
						c.resp, c.err = d.env.filter.Check(context.WithValue(context.Background(), checkKey{}, c), req)
					}()
					d.big.Lock()
					d.finishCheck(c)
					d.big.Unlock()
				}
			}(f, g)
		}
	}
	close(begin)
	wg.Wait()
}

func (d *driver) setSecret(name, value string) error {
	e := d.env
	if e.kube == nil {
		return fmt.Errorf("scenario has no filter with a secret reference")
	}
	ctx := context.Background()
	sec := &corev1.Secret{}
	key := types.NamespacedName{Namespace: "own", Name: name}
	if err := e.kube.Get(ctx, key, sec); err != nil {
		sec = &corev1.Secret{ObjectMeta: metav1.ObjectMeta{Namespace: "own", Name: name}, Data: map[string][]byte{"client-secret": []byte(value)}}
		if err := e.kube.Create(ctx, sec); err != nil {
			return err
		}
	} else {
		sec.Data = map[string][]byte{"client-secret": []byte(value)}
		if err := e.kube.Update(ctx, sec); err != nil {
			return err
		}
	}
	if old, ok := e.curSec[name]; ok && old != value {
		d.oldSecrets = append(d.oldSecrets, old)
	}
	if e.curSec == nil {
		e.curSec = map[string]string{}
	}
	e.curSec[name] = value
	d.rec.addSecret(value, "clientSecret")
	_, err := e.secrets.Reconcile(ctx, ctrl.Request{NamespacedName: key})
	d.rec.emit(map[string]any{"ev": "noop", "c": "secret"})
	return err
}

func (d *driver) doAuthz(b string, lg *login) {
	br := d.browser(b)
	code, sym := d.idp.authorize(lg)
	br.lastCode, br.lastSt = code, lg.state
	stSym, _ := d.rec.lookup("st", lg.state)
	nSym, _ := d.rec.lookup("n", lg.nonce)
	d.rec.emit(map[string]any{"ev": "authz", "b": b, "sid": lg.sidSym, "f": lg.f, "code": sym, "state": stSym, "nonce": nSym,
		"challenge": d.rec.challengeSym(lg.challenge), "clientId": d.symClientID(lg.clientID), "redirectUri": d.symRedirect(lg.redirect)})
}

func (d *driver) runScenario(sc *Scenario) (err error) {
	d.rec.resetSyms()
	d.idp.reset()
	d.mu.Lock()
	d.now, d.ks, d.cur = 0, "", nil
	d.mu.Unlock()
	d.checks = map[string]*checkRun{}
	d.issued = nil
	d.logins = map[string]*login{}
	d.brs = map[string]*browser{}
	d.forged = 0
	d.scID = sc.ID
	d.scN++
	d.codeOwner = map[string]*checkRun{}
	d.rtReader = map[string]*checkRun{}
	d.oldSecrets = nil
	if sc.Store != "" {
		for i := range sc.Cfg.Filters {
			sc.Cfg.Filters[i].Store = sc.Store
		}
	}
	if err = d.setup(sc.Cfg); err != nil {
		if strings.Contains(err.Error(), "config rejected") && hasDuplicateChainNames(sc.Cfg) {
			// a loader may refuse chains that share a name (rejecting is always allowed): the scenario does not apply
			d.rec.emit(map[string]any{"ev": "reset", "scenario": sc.ID, "filters": []any{}, "tags": []any{"skipped:loader-rejects-equal-chain-names"}, "triggerRules": false})
			d.rec.emit(map[string]any{"ev": "end"})
			return nil
		}
		return err
	}
	d.rec.emit(d.cfgEvent(sc))
	for i := range sc.Steps {
		st := &sc.Steps[i]
		switch st.Op {
		case "start":
			d.start(st)
		case "step":
			c := d.checks[st.C]
			if c == nil || c.pending == nil {
				d.rec.emit(map[string]any{"ev": "noop", "c": st.C})
				continue
			}
			dir := Directive{}
			if st.Dir != nil {
				dir = *st.Dir
			}
			d.release(c, dir)
		case "finish":
			if c := d.checks[st.C]; c != nil {
				if st.Ans != nil {
					c.defAns = st.Ans
				}
				d.finish(c)
			}
		case "check":
			c := d.start(st)
			d.finish(c)
		case "tickms":
			// a fraction of a second passes (st.D milliseconds, < 1000). The trace carries whole seconds: the clock event says
			// the NEXT whole second, so that "expires at T" read at T + 0.35 s is past its expiry for the monitors as it is for the code
			d.mu.Lock()
			d.fracMs = int64(st.D)
			now := d.now
			d.mu.Unlock()
			for _, m := range d.env.mr {
				m.SetTime(baseTime.Add(time.Duration(now)*time.Second + time.Duration(st.D)*time.Millisecond))
			}
			d.rec.emit(map[string]any{"ev": "clock", "now": now + 1})
		case "tick":
			d.mu.Lock()
			d.now += int64(st.D)
			d.fracMs = 0
			now := d.now
			d.mu.Unlock()
			for _, m := range d.env.mr {
				m.FastForward(time.Duration(st.D) * time.Second)
				m.SetTime(baseTime.Add(time.Duration(now) * time.Second))
			}
			d.rec.emit(map[string]any{"ev": "clock", "now": now})
		case "authz":
			if st.Sid == 0 && st.F != "" && d.env.fspec[st.F] != nil {
				// the session the browser holds for filter F
				if lg := d.logins[d.browser(st.B).jar[cookieName(d.env.fspec[st.F])]]; lg != nil {
					d.doAuthz(st.B, lg)
					continue
				}
			}
			if st.Sid >= 1 && st.Sid <= len(d.issued) {
				if lg := d.logins[d.issued[st.Sid-1]]; lg != nil {
					d.doAuthz(st.B, lg)
					continue
				}
			}
			d.rec.emit(map[string]any{"ev": "noop", "c": "authz"})
		case "browse":
			d.browse(st)
		case "parallel":
			d.parallelFlows(st)
		case "hammer":
			d.hammer(st)
		case "storm":
			d.storm(st)
		case "tamper":
			// the session's record in Redis is damaged / is one written by another version of the service: the field that holds
			// the creation time is removed, or rewritten as epoch seconds, or as garbage (found by its value, not by its name)
			n := 0
			if sid, ok := d.nthSid(st.Cookie); ok {
				for _, m := range d.env.mr {
					for db := 0; db < 3; db++ {
						mdb := m.DB(db)
						for _, k := range mdb.Keys() {
							if k != sid && !strings.HasSuffix(k, sid) {
								continue
							}
							fields, err := mdb.HKeys(k)
							if err != nil {
								continue
							}
							field, when := "", time.Time{}
							for _, f := range fields {
								if t, err := time.Parse(time.RFC3339Nano, mdb.HGet(k, f)); err == nil && (field == "" || t.Before(when)) {
									field, when = f, t
								}
							}
							if field == "" {
								continue
							}
							switch st.How {
							case "dropCreated":
								mdb.HDel(k, field)
							case "epochCreated":
								mdb.HSet(k, field, fmt.Sprintf("%d", when.Unix()))
							default:
								mdb.HSet(k, field, "yesterday at noon")
							}
							n++
						}
					}
				}
			}
			d.rec.emit(map[string]any{"ev": "noop", "c": fmt.Sprintf("tamper:%s:%d", st.How, n)})
		case "flood":
			// st.D requests without a cookie, each of which makes the service create a session (a busy service holds thousands);
			// only the count is logged
			for k := 0; k < st.D; k++ {
				c := d.start(&Step{Op: "check", B: fmt.Sprintf("flood%d", k), F: st.F, Kind: "app", Cookie: "none", URL: k % len(urlPool), Ans: st.Ans, Shape: "sameSessionParallel"})
				d.finish(c)
			}
		case "secret":
			// the Kubernetes Secret st.F gets the value st.Value and the controller reconciles it
			if err := d.setSecret(st.F, st.Value); err != nil {
				return err
			}
		case "idpctl":
			d.idp.mu.Lock()
			d.idp.discoveryOutage = st.D
			if st.Value != "" && st.F != "" {
				// while the next discovery document is being fetched, the Secret st.F gets the value st.Value and is reconciled
				name, value := st.F, st.Value
				d.idp.onDiscovery = func() { _ = d.setSecret(name, value) }
			}
			d.idp.mu.Unlock()
			d.rec.emit(map[string]any{"ev": "noop", "c": "idpctl"})
		case "keyset":
			d.setKeySet(st.Value)
			d.rec.emit(map[string]any{"ev": "keyset", "set": ifs(st.Value == "", "k1k2", st.Value)})
		default:
			return fmt.Errorf("unknown op %q", st.Op)
		}
	}
	// let every check still in flight run to completion
	for _, st := range sc.Steps {
		if c := d.checks[st.C]; c != nil && st.C != "" {
			d.finish(c)
		}
	}
	d.rec.emit(map[string]any{"ev": "end", "scenario": sc.ID})
	return nil
}

// runFile executes every scenario of an NDJSON file.
func runFile(in, out, tmp string) (int, error) {
	f, err := os.Open(in)
	if err != nil {
		return 0, err
	}
	defer f.Close()
	d, err := newDriver(out, tmp)
	if err != nil {
		return 0, err
	}
	defer d.close()
	sc := bufio.NewScanner(f)
	sc.Buffer(make([]byte, 1<<20), 1<<26)
	n := 0
	for sc.Scan() {
		line := strings.TrimSpace(sc.Text())
		if line == "" {
			continue
		}
		var s Scenario
		if err := json.Unmarshal([]byte(line), &s); err != nil {
			return n, fmt.Errorf("scenario %d: %w", n+1, err)
		}
		if err := d.runScenario(&s); err != nil {
			return n, fmt.Errorf("scenario %s: %w", s.ID, err)
		}
		n++
	}
	return n, sc.Err()
}

func hasDuplicateChainNames(c CfgSpec) bool {
	seen := map[string]bool{}
	for _, f := range c.Filters {
		n := f.ChainName
		if n == "" {
			n = f.Name
		}
		if seen[n] {
			return true
		}
		seen[n] = true
	}
	return false
}
