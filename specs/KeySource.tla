----------------------------- MODULE KeySource ------------------------------
(***************************************************************************)
(* The key source of the ID-token check (internal/oidc/jwks.go): a filter  *)
(* is configured with a static key set or with a key-set URI that is       *)
(* fetched on first use, cached per URI, and refreshed in the background   *)
(* every periodic_fetch_interval_sec.  This module is the design: what a   *)
(* lookup may return, given what each URI has served.  (Extends the        *)
(* specification beyond the listed properties; what it adds to C02 is the  *)
(* meaning of "the filter's configured key set" for fetched key sets.)     *)
(*                                                                         *)
(*  servers  srv[u]  = [gen, mode]   gen: generation of the key set the    *)
(*                                   URI serves now (rotations increase    *)
(*                                   it), mode: "ok" | "down" | "garbage"  *)
(*  cache    reg[u], got[u]          registered?, generation cached        *)
(*                                   (0 = nothing fetched yet)             *)
(*  due[u]                           the refresh interval has elapsed      *)
(*                                                                         *)
(* Steps: Get(f) (a lookup by a check of filter f), Rotate / SetMode (the  *)
(* provider), Tick (the interval elapses), Refresh (the background fetch). *)
(* One action per step of the code: jwk.Cache.Register + first Get is the  *)
(* synchronous fetch inside Get(f); the refresh loop is Refresh(u).        *)
(***************************************************************************)
EXTENDS Integers, Sequences, FiniteSets, TLC, Json

CONSTANTS MaxGen,      \* generations per URI
          MaxOps,      \* length of a behaviour
          Export,      \* print behaviours as scenarios
          RetryFirstFetch   \* design choice: TRUE = a lookup that finds nothing cached fetches again; FALSE = as coded, only the
                            \* very first lookup of a URI fetches synchronously (the cache library marks the entry as fetched even
                            \* when the fetch failed), later lookups err until a background refresh has succeeded

Filters == {"f1", "f2", "f3", "fs"}
\* f1 and f3 share one URI (one cache entry), f2 has its own, fs has a static key set
UriOf == [f \in Filters |-> CASE f = "f1" -> "u1" [] f = "f3" -> "u1" [] f = "f2" -> "u2" [] OTHER -> "static"]
Uris == {"u1", "u2"}
Modes == {"ok", "down", "garbage"}

VARIABLES srv, reg, got, due, tried, last, hist
vars == <<srv, reg, got, due, tried, last, hist>>

Init == /\ srv = [u \in Uris |-> [gen |-> 1, mode |-> "ok"]]
        /\ reg = [u \in Uris |-> FALSE]
        /\ got = [u \in Uris |-> 0]
        /\ due = [u \in Uris |-> FALSE]
        /\ tried = [u \in Uris |-> FALSE]
        /\ last = [f |-> "none", k |-> "none", u |-> "", g |-> 0]
        /\ hist = <<>>

Step(op) == hist' = Append(hist, op)

\* what a lookup answers (last): k = "set" with the source u and generation g of the key set (u = "static" for a configured one), or k = "err"
GetStatic(f) ==
  /\ UriOf[f] = "static"
  /\ last' = [f |-> f, k |-> "set", u |-> "static", g |-> 0]
  /\ Step([op |-> "get", f |-> f])
  /\ UNCHANGED <<srv, reg, got, due, tried>>

GetFetched(f) ==
  LET u == UriOf[f] IN
  /\ u \in Uris
  /\ reg' = [reg EXCEPT ![u] = TRUE]
  /\ IF got[u] # 0
     THEN /\ last' = [f |-> f, k |-> "set", u |-> u, g |-> got[u]] /\ UNCHANGED got        \* served from the cache, no network
     ELSE IF srv[u].mode = "ok" /\ (~tried[u] \/ RetryFirstFetch)
          THEN /\ got' = [got EXCEPT ![u] = srv[u].gen]                        \* first use: synchronous fetch
               /\ last' = [f |-> f, k |-> "set", u |-> u, g |-> srv[u].gen]
          ELSE /\ last' = [f |-> f, k |-> "err", u |-> "", g |-> 0] /\ UNCHANGED got            \* nothing cached, nothing fetched: an error
  /\ tried' = [tried EXCEPT ![u] = TRUE]
  /\ Step([op |-> "get", f |-> f])
  /\ UNCHANGED <<srv, due>>

Rotate(u) ==
  /\ srv[u].gen < MaxGen
  /\ srv' = [srv EXCEPT ![u].gen = @ + 1]
  /\ Step([op |-> "rotate", u |-> u])
  /\ UNCHANGED <<reg, got, due, tried, last>>

SetMode(u, m) ==
  /\ srv[u].mode # m
  /\ srv' = [srv EXCEPT ![u].mode = m]
  /\ Step([op |-> "mode", u |-> u, m |-> m])
  /\ UNCHANGED <<reg, got, due, tried, last>>

\* the refresh interval elapses: every registered URI is due.  In a scenario this is the "wait" step; the background
\* refreshes that follow are not scenario steps (the code takes them on its own).
Tick ==
  /\ \E u \in Uris : reg[u]
  /\ \A u \in Uris : ~due[u]
  /\ due' = [u \in Uris |-> reg[u]]
  /\ Step([op |-> "wait"])
  /\ UNCHANGED <<srv, reg, got, tried, last>>

\* the provider may register and fetch a source before any lookup asks for it (a warm-up at start-up, a prefetch)
Warm(u) ==
  /\ ~reg[u]
  /\ reg' = [reg EXCEPT ![u] = TRUE] /\ tried' = [tried EXCEPT ![u] = TRUE]
  /\ got' = IF srv[u].mode = "ok" THEN [got EXCEPT ![u] = srv[u].gen] ELSE got
  /\ UNCHANGED <<srv, due, last, hist>>

Refresh(u) ==
  /\ due[u]
  /\ due' = [due EXCEPT ![u] = FALSE]
  /\ got' = IF srv[u].mode = "ok" THEN [got EXCEPT ![u] = srv[u].gen] ELSE got   \* a failed refresh keeps what is cached
  /\ UNCHANGED <<srv, reg, tried, last, hist>>

Quiet == \A u \in Uris : ~due[u]

Next ==
  \/ /\ Len(hist) < MaxOps
     /\ Quiet                                           \* scenario steps are taken between refresh rounds
     /\ \/ \E f \in Filters : GetStatic(f) \/ GetFetched(f)
        \/ \E u \in Uris : Rotate(u) \/ \E m \in Modes : SetMode(u, m)
        \/ Tick
  \/ \E u \in Uris : Refresh(u) \/ Warm(u)

Spec == Init /\ [][Next]_vars

---------------------------------------------------------------------------
\* Design properties

\* a lookup answers with keys of the filter's own source only
OwnKeysOnly == last.k = "set" => last.u = UriOf[last.f]

\* keys are only ever generations the source has served, and a cache never goes back
Served == \A u \in Uris : got[u] <= srv[u].gen
NoRollback == [][\A u \in Uris : got'[u] >= got[u]]_vars

\* no key set without a successful fetch: a lookup errs only when nothing is cached (fail closed, never a guess)
ErrOnlyUncached == [][(last'.k = "err" /\ hist' # hist /\ hist'[Len(hist')].op = "get") =>
                        (LET u == UriOf[last'.f] IN got[u] = 0)]_vars
\* availability: a lookup errs only when the source does not answer.  Holds with RetryFirstFetch, fails as coded:
\* after a failed first fetch every lookup errs until the next background refresh, although the source is back.
ErrOnlySourceDown == [][(last'.k = "err" /\ hist' # hist /\ hist'[Len(hist')].op = "get") =>
                          (LET u == UriOf[last'.f] IN srv[u].mode # "ok")]_vars

\* freshness: once a refresh round is over, a source that answers is cached at its current generation
FreshAfterRound == [][(\E u \in Uris : due[u]) /\ (\A u \in Uris : ~due'[u]) =>
                        \A u \in Uris : (reg[u] /\ got[u] # 0 /\ srv[u].mode = "ok" /\ due[u] /\ ~due'[u]) => got'[u] = srv[u].gen]_vars

\* a static key set is never affected by anything
StaticIsStatic == last.f = "fs" => (last.k = "set" /\ last.u = "static")

---------------------------------------------------------------------------
\* the design check does not distinguish behaviours by their history, only by its length
DView == <<srv, reg, got, due, tried, last, Len(hist)>>

\* Scenario export: every behaviour of MaxOps steps that contains at least one lookup
Interesting == \E i \in 1..Len(hist) : hist[i].op = "get"
ExportScn == (Export /\ Len(hist) = MaxOps /\ Quiet /\ Interesting) =>
               PrintT(<<"SCN", ToJson([id |-> "keysource", steps |-> hist])>>)
=============================================================================
