package zzverif

// Key-source driver (extends C02): behaviours of KeySource.tla (lookups by filters, key rotation at the source, sources
// that are down or answer garbage, waits longer than the refresh interval) are applied to the real DefaultJWKSProvider
// (jwk cache with background refresh, interval 1 s - the smallest the configuration can express). Every lookup's result
// is identified by the key ids in the returned set and logged; KeySourceTrace.tla judges the trace.

import (
	"bufio"
	"context"
	"crypto/ecdsa"
	"crypto/elliptic"
	"crypto/rand"
	"encoding/json"
	"fmt"
	"net/http"
	"net/http/httptest"
	"os"
	"strconv"
	"strings"
	"sync"
	"time"

	"github.com/lestrrat-go/jwx/v2/jwk"

	configv1 "github.com/istio-ecosystem/authservice/config/gen/go/v1"
	oidcv1 "github.com/istio-ecosystem/authservice/config/gen/go/v1/oidc"
	"github.com/istio-ecosystem/authservice/internal"
	"github.com/istio-ecosystem/authservice/internal/oidc"
)

type jwksStep struct {
	Op string `json:"op"`
	F  string `json:"f"`
	U  string `json:"u"`
	M  string `json:"m"`
}

type jwksScenario struct {
	ID    string     `json:"id"`
	Steps []jwksStep `json:"steps"`
}

type jwksSource struct {
	mu   sync.Mutex
	gen  map[string]int
	mode map[string]string
	hits map[string]int
	keys map[string]string // "u1-g2" -> JWKS document
}

func (s *jwksSource) doc(u string, gen int) string {
	id := fmt.Sprintf("%s-g%d", u, gen)
	if d, ok := s.keys[id]; ok {
		return d
	}
	k, err := ecdsa.GenerateKey(elliptic.P256(), rand.Reader)
	if err != nil {
		panic(err)
	}
	b, _ := json.Marshal(map[string]any{"keys": []any{ecJWK(id, &k.PublicKey)}})
	s.keys[id] = string(b)
	return s.keys[id]
}

func (s *jwksSource) ServeHTTP(w http.ResponseWriter, r *http.Request) {
	u := strings.Trim(strings.TrimSuffix(r.URL.Path, "/jwks"), "/")
	s.mu.Lock()
	s.hits[u]++
	mode, gen := s.mode[u], s.gen[u]
	body := ""
	if mode == "ok" {
		body = s.doc(u, gen)
	}
	s.mu.Unlock()
	switch mode {
	case "ok":
		w.Header().Set("Content-Type", "application/json")
		_, _ = w.Write([]byte(body))
	case "garbage":
		w.Header().Set("Content-Type", "application/json")
		_, _ = w.Write([]byte(`<html>not a key set</html>`))
	default:
		http.Error(w, "key endpoint unavailable", http.StatusServiceUnavailable)
	}
}

// identify names the key set a lookup returned by the key ids in it: ("u1", 2), ("static", 0), or ("?", 0).
func identifyKeySet(set jwk.Set) (string, int) {
	if set == nil || set.Len() == 0 {
		return "?", 0
	}
	uri, gen := "", -1
	for i := 0; i < set.Len(); i++ {
		k, _ := set.Key(i)
		kid := k.KeyID()
		if kid == "static-k" {
			if uri != "" && uri != "static" {
				return "?", 0
			}
			uri, gen = "static", 0
			continue
		}
		parts := strings.SplitN(kid, "-g", 2)
		if len(parts) != 2 {
			return "?", 0
		}
		g, err := strconv.Atoi(parts[1])
		if err != nil || (uri != "" && (uri != parts[0] || gen != g)) {
			return "?", 0
		}
		uri, gen = parts[0], g
	}
	return uri, gen
}

func runJwksScenario(sc jwksScenario) ([]map[string]any, error) {
	var evs []map[string]any
	emit := func(e map[string]any) { evs = append(evs, e) }
	emit(map[string]any{"ev": "jreset", "scenario": sc.ID})

	src := &jwksSource{gen: map[string]int{"u1": 1, "u2": 1}, mode: map[string]string{"u1": "ok", "u2": "ok"}, hits: map[string]int{}, keys: map[string]string{}}
	srv := httptest.NewServer(src)
	defer srv.Close()

	sk, err := ecdsa.GenerateKey(elliptic.P256(), rand.Reader)
	if err != nil {
		return nil, err
	}
	static, _ := json.Marshal(map[string]any{"keys": []any{ecJWK("static-k", &sk.PublicKey)}})
	uriOf := map[string]string{"f1": "u1", "f3": "u1", "f2": "u2", "fs": "static"}
	filters := map[string]*oidcv1.OIDCConfig{}
	cfg := &configv1.Config{}
	for _, f := range []string{"f1", "f2", "f3", "fs"} {
		o := &oidcv1.OIDCConfig{ClientId: "client-" + f}
		if uriOf[f] == "static" {
			o.JwksConfig = &oidcv1.OIDCConfig_Jwks{Jwks: string(static)}
		} else {
			o.JwksConfig = &oidcv1.OIDCConfig_JwksFetcher{JwksFetcher: &oidcv1.OIDCConfig_JwksFetcherConfig{
				JwksUri: srv.URL + "/" + uriOf[f] + "/jwks", PeriodicFetchIntervalSec: 1}}
		}
		filters[f] = o
		cfg.Chains = append(cfg.Chains, &configv1.FilterChain{Name: f, Filters: []*configv1.Filter{{Type: &configv1.Filter_Oidc{Oidc: o}}}})
	}

	ctx, cancel := context.WithCancel(context.Background())
	defer cancel()
	provider := oidc.NewJWKSProvider(cfg, internal.NewTLSConfigPool(ctx))
	startUnit(ctx, provider)

	reg := map[string]bool{}
	for _, st := range sc.Steps {
		switch st.Op {
		case "get":
			gctx, gcancel := context.WithTimeout(ctx, 20*time.Second)
			set, err := provider.Get(gctx, filters[st.F])
			gcancel()
			if u := uriOf[st.F]; u != "static" {
				reg[u] = true
			}
			e := map[string]any{"ev": "get", "f": st.F, "res": "set", "uri": "", "gen": 0}
			if err != nil {
				e["res"] = "err"
			} else {
				e["uri"], e["gen"] = identifyKeySet(set)
			}
			emit(e)
		case "rotate":
			src.mu.Lock()
			src.gen[st.U]++
			g := src.gen[st.U]
			src.mu.Unlock()
			emit(map[string]any{"ev": "rotate", "u": st.U, "gen": g})
		case "mode":
			src.mu.Lock()
			src.mode[st.U] = st.M
			src.mu.Unlock()
			emit(map[string]any{"ev": "mode", "u": st.U, "m": st.M})
		case "wait":
			// patience, not judgement: interval (1 s) + refresh window (1 s) + the library's rounding to whole seconds is at
			// most 3 s; the driver polls until every registered source has been asked again (at most 8 s), then lets the
			// answer settle. A provider that never refreshes simply uses up the 8 s.
			src.mu.Lock()
			before := map[string]int{}
			for u := range reg {
				before[u] = src.hits[u]
			}
			src.mu.Unlock()
			deadline := time.Now().Add(8 * time.Second)
			refreshed := map[string]any{}
			for time.Now().Before(deadline) {
				all := true
				src.mu.Lock()
				for u := range reg {
					if src.hits[u] <= before[u] {
						all = false
					}
				}
				src.mu.Unlock()
				if all {
					break
				}
				time.Sleep(50 * time.Millisecond)
			}
			time.Sleep(300 * time.Millisecond)
			src.mu.Lock()
			for u := range reg {
				refreshed[u] = src.hits[u] > before[u]
			}
			src.mu.Unlock()
			emit(map[string]any{"ev": "wait", "refreshed": refreshed})
		default:
			return nil, fmt.Errorf("unknown key-source step %q", st.Op)
		}
	}
	emit(map[string]any{"ev": "end"})
	return evs, nil
}

// runJwksFile runs the scenarios of `in` (NDJSON), 12 at a time, and writes their traces in scenario order.
func runJwksFile(in, out string) (int, error) {
	fh, err := os.Open(in)
	if err != nil {
		return 0, err
	}
	defer fh.Close()
	var scs []jwksScenario
	rd := bufio.NewScanner(fh)
	rd.Buffer(make([]byte, 1<<20), 1<<26)
	for rd.Scan() {
		if len(strings.TrimSpace(rd.Text())) == 0 {
			continue
		}
		var sc jwksScenario
		if err := json.Unmarshal(rd.Bytes(), &sc); err != nil {
			return 0, err
		}
		scs = append(scs, sc)
	}
	results := make([][]map[string]any, len(scs))
	errs := make([]error, len(scs))
	sem := make(chan struct{}, 12)
	var wg sync.WaitGroup
	for i := range scs {
		wg.Add(1)
		sem <- struct{}{}
		go func(i int) {
			defer wg.Done()
			defer func() { <-sem }()
			results[i], errs[i] = runJwksScenario(scs[i])
		}(i)
	}
	wg.Wait()
	w, err := os.Create(out)
	if err != nil {
		return 0, err
	}
	defer w.Close()
	bw := bufio.NewWriter(w)
	defer bw.Flush()
	for i := range scs {
		if errs[i] != nil {
			return i, errs[i]
		}
		for _, e := range results[i] {
			b, _ := json.Marshal(e)
			_, _ = bw.Write(b)
			_ = bw.WriteByte('\n')
		}
	}
	return len(scs), nil
}

// startUnit brings a unit of the service up the way run.Group does: its PreRun step if it has one, then its serving loop.
func startUnit(ctx context.Context, u any) {
	if pr, ok := u.(interface{ PreRun() error }); ok {
		_ = pr.PreRun()
	}
	if sv, ok := u.(interface{ ServeContext(context.Context) error }); ok {
		go func() { _ = sv.ServeContext(ctx) }()
	}
}
