#!/usr/bin/env python3
"""Sixth-round (blind, asked for the unusual) seeded defects: scans /root/scratch/r6/<prop>, verifies and files them under seeded/<prop>-r4m<n>/ (see seedkeep.py)."""
import glob, json, os, re, shutil, subprocess, sys, concurrent.futures
sys.path.insert(0, os.path.dirname(os.path.abspath(__file__)))
import seedkeep

ROOT = "/root/scratch/r6/%s"

def items(props):
    out = []
    for p in props:
        for diff in sorted(glob.glob((ROOT % p) + "/mutant*.diff")):
            n = re.search(r"mutant(\d+)\.diff", diff).group(1)
            demo = os.path.join(ROOT % p, "demo%s_test.go.txt" % n)
            if not os.path.exists(demo):
                continue
            out.append(("%s-r6m%s" % (p, n), p, diff, demo, "see notes.md (sixth round)"))
    return out

def one(seed):
    sid, prop, patch, demo, needs = seed
    r = seedkeep.one(seed)
    d = os.path.join("/verif/seeded", sid)
    notes = os.path.join(ROOT % prop, "notes.md")
    if os.path.exists(notes):
        shutil.copy(notes, os.path.join(d, "notes.md"))
    return r

if __name__ == "__main__":
    props = sys.argv[1:] or ["C%02d" % i for i in range(1, 21) if i != 16]
    with concurrent.futures.ThreadPoolExecutor(max_workers=4) as ex:
        for sid, ver, rc in ex.map(one, items(props)):
            print("%s verified=%s check_exit=%s" % (sid, ver, rc), flush=True)
