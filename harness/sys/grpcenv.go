package zzverif

// The service as Envoy reaches it: with "grpc" set in a scenario's configuration the checks travel over a real gRPC
// connection to server.Server (listener, interceptor chain, registered handler) instead of being method calls, and the
// answer is what arrives at the client. The check a store / key-source call belongs to is carried in the request metadata.

import (
	"context"
	"fmt"
	"net"
	"runtime/debug"
	"strconv"

	envoy "github.com/envoyproxy/go-control-plane/envoy/service/auth/v3"
	"google.golang.org/grpc"
	"google.golang.org/grpc/codes"
	"google.golang.org/grpc/credentials/insecure"
	"google.golang.org/grpc/metadata"
	"google.golang.org/grpc/status"

	"github.com/istio-ecosystem/authservice/internal/server"
)

const checkMD = "x-verif-check"

// checkOf finds the check a call made by the service belongs to: the context value (direct calls) or the metadata (gRPC).
func (d *driver) checkOf(ctx context.Context) any {
	if v := ctx.Value(checkKey{}); v != nil {
		return v
	}
	if md, ok := metadata.FromIncomingContext(ctx); ok {
		if vs := md.Get(checkMD); len(vs) == 1 {
			if n, err := strconv.Atoi(vs[0]); err == nil {
				d.mu.Lock()
				defer d.mu.Unlock()
				for _, c := range d.checks {
					if c.n == n {
						return c
					}
				}
			}
		}
	}
	return nil
}

// guarded is the registered handler: a panic of the filter is noted on the check (and answered as an internal error)
// instead of taking the harness process down, as it would take the service down.
type guarded struct {
	envoy.UnimplementedAuthorizationServer
	d     *driver
	inner *server.ExtAuthZFilter
}

func (g *guarded) Check(ctx context.Context, req *envoy.CheckRequest) (resp *envoy.CheckResponse, err error) {
	defer func() {
		if r := recover(); r != nil {
			if c, ok := g.d.checkOf(ctx).(*checkRun); ok {
				c.pan, c.stack = r, string(debug.Stack())
			}
			resp, err = nil, status.Error(codes.Internal, fmt.Sprint("panic: ", r))
		}
	}()
	return g.inner.Check(ctx, req)
}

type grpcFront struct {
	srv    *server.Server
	conn   *grpc.ClientConn
	client envoy.AuthorizationClient
}

func (d *driver) newGrpcFront(e *env, f *server.ExtAuthZFilter) (*grpcFront, error) {
	l, err := net.Listen("tcp", "127.0.0.1:0")
	if err != nil {
		return nil, err
	}
	s := server.New(e.cfg, func(gs *grpc.Server) { envoy.RegisterAuthorizationServer(gs, &guarded{d: d, inner: f}) })
	s.Listen = func() (net.Listener, error) { return l, nil }
	if err := s.PreRun(); err != nil {
		_ = l.Close()
		return nil, err
	}
	go func() { _ = s.Serve() }()
	conn, err := grpc.NewClient(l.Addr().String(), grpc.WithTransportCredentials(insecure.NewCredentials()))
	if err != nil {
		s.GracefulStop()
		return nil, err
	}
	return &grpcFront{srv: s, conn: conn, client: envoy.NewAuthorizationClient(conn)}, nil
}

func (g *grpcFront) check(ctx context.Context, c *checkRun, req *envoy.CheckRequest) (*envoy.CheckResponse, error) {
	return g.client.Check(metadata.AppendToOutgoingContext(ctx, checkMD, strconv.Itoa(c.n)), req)
}

func (g *grpcFront) close() {
	_ = g.conn.Close()
	g.srv.GracefulStop()
}
