//go:build verif

package k8s

import (
	"sigs.k8s.io/controller-runtime/pkg/client"

	configv1 "github.com/istio-ecosystem/authservice/config/gen/go/v1"
)

// VerifNewController builds a SecretController the way PreRun does, but with the given namespace and Kubernetes
// client instead of the in-cluster ones, and indexes the configured secret references.
func VerifNewController(cfg *configv1.Config, namespace string, cl client.Client) (*SecretController, error) {
	s := NewSecretController(cfg)
	s.namespace = namespace
	s.k8sClient = cl
	err := s.loadSecrets()
	return s, err
}
