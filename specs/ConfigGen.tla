----------------------------- MODULE ConfigGen -----------------------------
(* Enumerates abstract configuration documents (C17) and prints each with its JSON rendering. *)
EXTENDS ConfigOps, Json

CONSTANTS Tier
VARIABLE pick
Quick == Tier = "quick"

With(fc, f, c) == [fc EXCEPT ![f] = c]
OneOff(base)  == {With(base, f, c) : f \in Fields, c \in UNION {Classes(g) : g \in Fields}} \cap [Fields -> UNION {Classes(g) : g \in Fields}]
WellTyped(fc) == \A f \in Fields : fc[f] \in Classes(f)
Vary1(base) == {fc \in OneOff(base) : WellTyped(fc)}
Vary2(base) == UNION {Vary1(x) : x \in Vary1(base)}

Flt(type, tag, f) == [type |-> type, tag |-> tag, f |-> f]
Mock == [type |-> "mock", tag |-> "M", f |-> Absent]
Empty == [type |-> "empty", tag |-> "E", f |-> Absent]
NoDef == [present |-> FALSE, f |-> Absent]
Def(f) == [present |-> TRUE, f |-> f]
Doc(def, chains) == [def |-> def, chains |-> chains]

Plain == {Doc(NoDef, <<<<Flt("oidc", "P1", fc)>>>>) : fc \in (IF Quick THEN Vary2(Valid) ELSE Vary2(Valid))}
\* default + one override: per field a (default class, override class) pair; at most two fields away from (Valid, absent)
DefOv1 == {Doc(Def(d), <<<<Flt("override", "O1", o)>>>>) : d \in Vary1(Valid), o \in Vary1(Absent)}
DefOv2 == {Doc(Def(d), <<<<Flt("override", "O1", o)>>>>) : d \in {Valid}, o \in Vary2(Absent)}
          \cup {Doc(Def(d), <<<<Flt("override", "O1", Absent)>>>>) : d \in Vary2(Valid)}
\* two override filters in two chains, each changing one field: no leakage between them
TwoOv == {Doc(Def(Valid), <<<<Flt("override", "O1", a)>>, <<Flt("override", "O2", b)>>>>) :
             a \in {x \in Vary1(Absent) : \E f \in {"hdr", "lo", "cid", "sc", "sec"} : x[f] # "absent"},
             b \in {x \in Vary1(Absent) : \E f \in {"hdr", "lo", "cid", "sc", "cb"} : x[f] # "absent"}}
Structural ==
  { Doc(NoDef, <<>>), Doc(NoDef, <<<<Mock>>>>), Doc(NoDef, <<<<Empty>>>>), Doc(NoDef, <<<<Mock, Empty>>>>), Doc(Def(Valid), <<<<Empty>>>>),
    Doc(NoDef, <<<<Flt("oidc", "P1", Valid), Flt("oidc", "P2", Valid)>>>>),
    Doc(NoDef, <<<<Mock, Flt("oidc", "P1", Valid)>>>>),
    Doc(NoDef, <<<<Flt("oidc", "P1", Valid)>>, <<Flt("oidc", "P2", Valid)>>>>),
    Doc(Def(Valid), <<<<Flt("oidc", "P1", Valid)>>>>),
    Doc(NoDef, <<<<Flt("override", "O1", Valid)>>>>),
    Doc(Def(Valid), <<<<Flt("override", "O1", Absent), Flt("override", "O2", Absent)>>>>),
    Doc(Def(Valid), <<<<Mock>>>>),
    Doc(Def(Absent), <<<<Flt("override", "O1", Valid)>>>>),
    Doc(Def(Valid), <<<<Flt("override", "O1", Absent)>>, <<Mock>>, <<Flt("override", "O2", Absent)>>>>) }

Space == Plain \cup DefOv1 \cup TwoOv \cup Structural \cup (IF Quick THEN {} ELSE DefOv2)

Init == pick \in Space
Next == UNCHANGED pick
Spec == Init /\ [][Next]_pick
Emit == PrintT(<<"SCN", ToJson([doc |-> pick, json |-> DocJ(pick), mustReject |-> MustReject(pick)])>>)
=============================================================================
