------------------------------ MODULE LinTrace ------------------------------
(***************************************************************************)
(* Linearizability of the in-memory session store under concurrent use     *)
(* (C12).  The trace holds, in real-time order, an `sinv` event before     *)
(* every store call and an `sret` event (with the result) after it.  The   *)
(* specification inserts one atomic step of the abstract session map       *)
(* between the two; TLC searches for a placement of these steps that       *)
(* explains every logged result.  The high-water mark of the consumed      *)
(* trace position is kept in a TLC register; a history that cannot be      *)
(* linearized stops the search at the first `send` it cannot reach.        *)
(***************************************************************************)
EXTENDS Integers, Sequences, FiniteSets, TLC, Json

CONSTANTS TraceFile, OutFile
Trace == ndJsonDeserialize(TraceFile)

VARIABLES l, m, pend
vars == <<l, m, pend>>

None == [ex |-> FALSE, auth |-> 0, tok |-> 0]
Idle == [st |-> "idle", op |-> "", sid |-> "", v |-> 0, res |-> 0]
Get(sid) == IF sid \in DOMAIN m THEN m[sid] ELSE None
Put(f, k, v) == [x \in (DOMAIN f) \cup {k} |-> IF x = k THEN v ELSE f[x]]
P(t) == IF t \in DOMAIN pend THEN pend[t] ELSE Idle

E == Trace[l]

Init == l = 1 /\ m = <<>> /\ pend = <<>>
InitL == TLCSet(1, 0) /\ Init

\* the atomic effect of an operation on the abstract map: <<new session, result>>
Effect(op, s, v) ==
  CASE op = "SetTok"    -> <<[ex |-> TRUE, auth |-> s.auth, tok |-> v], 0>>
    [] op = "SetAuth"   -> <<[ex |-> TRUE, auth |-> v, tok |-> s.tok], 0>>
    [] op = "GetTok"    -> <<s, s.tok>>
    [] op = "GetAuth"   -> <<s, s.auth>>
    [] op = "ClearAuth" -> <<IF s.ex THEN [s EXCEPT !.auth = 0] ELSE s, 0>>
    [] op = "Remove"    -> <<None, 0>>
    [] op = "sweep"     -> <<s, 0>>     \* the clean-up of timed-out sessions: no session that is within its limits is touched
    [] op = "flood"     -> <<s, 0>>     \* many other sessions are written: ids do not interfere

Reset  == l <= Len(Trace) /\ E.ev = "sreset" /\ l' = l + 1 /\ m' = <<>> /\ pend' = <<>>
\* the end of a history is reached only with every call returned
End    == l <= Len(Trace) /\ E.ev = "send" /\ (\A t \in DOMAIN pend : pend[t].st = "idle") /\ l' = l + 1 /\ UNCHANGED <<m, pend>>
Invoke == l <= Len(Trace) /\ E.ev = "sinv" /\ P(E.thr).st = "idle"
          /\ pend' = Put(pend, E.thr, [st |-> "inv", op |-> E.op, sid |-> E.sid, v |-> E.v, res |-> 0])
          /\ l' = l + 1 /\ UNCHANGED m
\* the linearization point of thread t's pending call (a silent step: no trace line is consumed)
Lin(t)  == /\ P(t).st = "inv"
           /\ LET e == Effect(pend[t].op, Get(pend[t].sid), pend[t].v) IN
                /\ m' = Put(m, pend[t].sid, e[1])
                /\ pend' = [pend EXCEPT ![t].st = "lin", ![t].res = e[2]]
           /\ UNCHANGED l
Return == l <= Len(Trace) /\ E.ev = "sret" /\ P(E.thr).st = "lin" /\ ~E.err /\ E.res = pend[E.thr].res
          /\ pend' = [pend EXCEPT ![E.thr] = Idle] /\ l' = l + 1 /\ UNCHANGED m

\* a clock advance between calls (the preamble of a history): when it is longer than a configured limit, every
\* session written before it has timed out - the store must behave as if they had never existed, also when several
\* goroutines are the first to find that out at the same time
Tick   == l <= Len(Trace) /\ E.ev = "stick" /\ (\A t \in DOMAIN pend : pend[t].st = "idle")
          /\ m' = (IF E.all THEN <<>> ELSE m) /\ l' = l + 1 /\ UNCHANGED pend

Next == Reset \/ End \/ Invoke \/ Return \/ Tick \/ \E t \in DOMAIN pend : Lin(t)
Spec == Init /\ [][Next]_vars

\* high-water mark of the trace position (register 1), kept by a constraint that is evaluated on every state
Mark == (IF l > TLCGet(1) THEN TLCSet(1, l) ELSE TRUE)
InitMark == TLCSet(1, 0)
Post == JsonSerialize(OutFile, [consumed |-> TLCGet(1) - 1, len |-> Len(Trace)])
=============================================================================
