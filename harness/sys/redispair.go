package zzverif

// Redis command-level replay: two real Redis-backed store instances run one operation each on the same session id while
// miniredis' command hook gates every Redis command according to a schedule printed by TLC (RedisStore.tla).

import (
	"bufio"
	"context"
	"encoding/json"
	"fmt"
	"os"
	"strings"
	"sync"
	"time"

	"github.com/alicebob/miniredis/v2"
	mrserver "github.com/alicebob/miniredis/v2/server"
	"github.com/redis/go-redis/v9"

	"github.com/istio-ecosystem/authservice/internal/oidc"
)

type pairScenario struct {
	ID           string         `json:"id"`
	OpA          string         `json:"opA"`
	OpB          string         `json:"opB"`
	Start        string         `json:"start"`
	Schedule     []int          `json:"schedule"`
	Serializable bool           `json:"serializable"`
	Model        map[string]any `json:"model"`
}

type cmdGate struct {
	mu      sync.Mutex
	peers   map[*mrserver.Peer]int
	next    int // client index to assign to the next unknown peer (0 = pass through)
	arrive  [3]chan string
	release [3]chan struct{}
	cmds    [3][]string
	free    bool
}

func (g *cmdGate) hook(p *mrserver.Peer, cmd string, args ...string) bool {
	g.mu.Lock()
	c, ok := g.peers[p]
	if !ok && g.next != 0 {
		c = g.next
		g.peers[p] = c
	}
	free := g.free
	g.mu.Unlock()
	if c == 0 || free || strings.EqualFold(cmd, "PING") || strings.EqualFold(cmd, "HELLO") || strings.EqualFold(cmd, "CLIENT") {
		return false
	}
	g.mu.Lock()
	g.cmds[c] = append(g.cmds[c], strings.ToUpper(cmd))
	g.mu.Unlock()
	g.arrive[c] <- cmd
	<-g.release[c]
	return false
}

// fullToks: the command-level model assumes every member is written by every SetTok
func (d *storeDriver) fullToks() {
	for i, t := range d.toks {
		t.AccessToken, t.RefreshToken = fmt.Sprintf("at-%d", i+1), fmt.Sprintf("rt-%d", i+1)
		t.AccessTokenExpiresAt = baseTime.Add(time.Duration(1000+i+1) * time.Second)
	}
}

func (d *storeDriver) runPair(sc *pairScenario) error {
	d.mu.Lock()
	d.now = 0
	d.mu.Unlock()
	mr, err := miniredis.Run()
	if err != nil {
		return err
	}
	defer mr.Close()
	mr.SetTime(baseTime)
	g := &cmdGate{peers: map[*mrserver.Peer]int{}}
	for i := 1; i <= 2; i++ {
		g.arrive[i], g.release[i] = make(chan string), make(chan struct{})
	}
	ctx := context.Background()
	mk := func() (oidc.SessionStore, *redis.Client, error) {
		cl := redis.NewClient(&redis.Options{Addr: mr.Addr(), PoolSize: 1, MaxRetries: -1})
		st, err := oidc.NewRedisStore(&oidc.Clock{}, cl, 0, 0)
		return st, cl, err
	}
	// the prepared content is written by a third, ungated instance
	prep, pc, err := mk()
	if err != nil {
		return err
	}
	defer pc.Close()
	const sid = "pair-session"
	switch sc.Start {
	case "pending":
		_ = prep.SetAuthorizationState(ctx, sid, d.auths[3])
	case "tokens":
		_ = prep.SetAuthorizationState(ctx, sid, d.auths[3])
		_ = prep.SetTokenResponse(ctx, sid, d.toks[3])
		_ = prep.ClearAuthorizationState(ctx, sid)
	}
	mr.Server().SetPreHook(g.hook)
	var stores [3]oidc.SessionStore
	for i := 1; i <= 2; i++ {
		g.mu.Lock()
		g.next = i
		g.mu.Unlock()
		st, cl, err := mk() // its PING registers the connection as client i
		if err != nil {
			return err
		}
		defer cl.Close()
		stores[i] = st
	}
	g.mu.Lock()
	g.next = 0
	g.mu.Unlock()

	type result struct {
		res int
		err bool
	}
	var results [3]result
	done := [3]chan struct{}{nil, make(chan struct{}), make(chan struct{})}
	run := func(i int, op string) {
		defer close(done[i])
		st := stores[i]
		var e error
		switch op {
		case "SetTok":
			e = st.SetTokenResponse(ctx, sid, d.toks[i-1])
		case "SetAuth":
			e = st.SetAuthorizationState(ctx, sid, d.auths[i-1])
		case "GetTok":
			var t *oidc.TokenResponse
			t, e = st.GetTokenResponse(ctx, sid)
			results[i].res = d.tokDigits(t)
		case "GetAuth":
			var a *oidc.AuthorizationState
			a, e = st.GetAuthorizationState(ctx, sid)
			results[i].res = d.authDigits(a)
		case "ClearAuth":
			e = st.ClearAuthorizationState(ctx, sid)
		case "Remove":
			e = st.RemoveSession(ctx, sid)
		}
		results[i].err = e != nil
	}
	go run(1, sc.OpA)
	go run(2, sc.OpB)
	// wait until a client is parked at the hook or has finished
	parked := [3]bool{}
	finished := [3]bool{}
	wait := func(i int) {
		if parked[i] || finished[i] {
			return
		}
		select {
		case <-g.arrive[i]:
			parked[i] = true
		case <-done[i]:
			finished[i] = true
		case <-time.After(20 * time.Second):
			panic("verif: redis pair replay stuck")
		}
	}
	wait(1)
	wait(2)
	for _, c := range sc.Schedule {
		if c < 1 || c > 2 || !parked[c] {
			continue // the real store issued fewer commands than the model: reported through the command lists
		}
		parked[c] = false
		g.release[c] <- struct{}{}
		wait(c)
	}
	// schedule exhausted: let whatever is left run freely
	g.mu.Lock()
	g.free = true
	g.mu.Unlock()
	for i := 1; i <= 2; i++ {
		for !finished[i] {
			if parked[i] {
				parked[i] = false
				g.release[i] <- struct{}{}
			}
			wait(i)
		}
	}
	mr.Server().SetPreHook(nil)
	val := func(field string, pool func(int) string) int {
		v := mr.HGet(sid, field)
		if !mr.Exists(sid) || v == "" {
			return 0
		}
		for i := 0; i < 4; i++ {
			if pool(i) == v {
				if i == 3 {
					return 9
				}
				return i + 1
			}
		}
		return -1
	}
	real := map[string]any{
		"id":       val("id_token", func(i int) string { return d.toks[i].IDToken }),
		"at":       val("access_token", func(i int) string { return d.toks[i].AccessToken }),
		"rt":       val("refresh_token", func(i int) string { return d.toks[i].RefreshToken }),
		"exp":      val("access_token_expiry", func(i int) string { return d.toks[i].AccessTokenExpiresAt.Format(time.RFC3339Nano) }),
		"state":    val("state", func(i int) string { return d.auths[i].State }),
		"verifier": val("code_verifier", func(i int) string { return d.auths[i].CodeVerifier }),
		"ta":       mr.Exists(sid) && mr.HGet(sid, "time_added") != "",
		"resA":     results[1].res, "resB": results[2].res, "errA": results[1].err, "errB": results[2].err,
	}
	d.rec.emit(map[string]any{"ev": "rpair", "id": sc.ID, "opA": sc.OpA, "opB": sc.OpB, "start": sc.Start, "serializable": sc.Serializable,
		"model": sc.Model, "real": real, "cmdsA": strs(g.cmds[1]), "cmdsB": strs(g.cmds[2])})
	return nil
}

func digit(idx int) int {
	if idx == 4 {
		return 9
	}
	return idx
}

func (d *storeDriver) tokDigits(t *oidc.TokenResponse) int {
	if t == nil {
		return 0
	}
	find := func(f func(*oidc.TokenResponse) bool) int {
		for i, x := range d.toks {
			if f(x) {
				return digit(i + 1)
			}
		}
		return 0
	}
	return find(func(x *oidc.TokenResponse) bool { return x.IDToken == t.IDToken })*1000 +
		find(func(x *oidc.TokenResponse) bool { return x.AccessToken == t.AccessToken })*100 +
		find(func(x *oidc.TokenResponse) bool { return x.AccessTokenExpiresAt.Equal(t.AccessTokenExpiresAt) })*10 +
		find(func(x *oidc.TokenResponse) bool { return x.RefreshToken == t.RefreshToken })
}

func (d *storeDriver) authDigits(a *oidc.AuthorizationState) int {
	if a == nil {
		return 0
	}
	find := func(f func(*oidc.AuthorizationState) bool) int {
		for i, x := range d.auths {
			if f(x) {
				return digit(i + 1)
			}
		}
		return 0
	}
	return find(func(x *oidc.AuthorizationState) bool { return x.State == a.State })*10 + find(func(x *oidc.AuthorizationState) bool { return x.CodeVerifier == a.CodeVerifier })
}

func runPairFile(in, out string) (int, error) {
	f, err := os.Open(in)
	if err != nil {
		return 0, err
	}
	defer f.Close()
	d, err := newStoreDriver(out)
	if err != nil {
		return 0, err
	}
	defer d.rec.close()
	d.fullToks()
	sc := bufio.NewScanner(f)
	sc.Buffer(make([]byte, 1<<20), 1<<26)
	n := 0
	for sc.Scan() {
		line := strings.TrimSpace(sc.Text())
		if line == "" {
			continue
		}
		var s pairScenario
		if err := json.Unmarshal([]byte(line), &s); err != nil {
			return n, err
		}
		if err := d.runPair(&s); err != nil {
			return n, fmt.Errorf("%s: %w", s.ID, err)
		}
		n++
	}
	return n, sc.Err()
}
