"""Per-property check definitions: which specifications are model-checked, which scenario families are
generated from them, how the real code is driven and which monitors decide."""
import json, os, re, random, shutil, time, itertools, subprocess
import vlib
from vlib import Work, Infra, log, VERIF

U = 100  # seconds of driver time per clock unit of the design model

# ---------------------------------------------------------------------------------------------
# AuthFlow configuration / scenario conversion

AF_DEFAULT = dict(Checks="{1,2,3}", Filters="{1}", MaxSid=2, MaxTok=3, MaxCode=2, MaxTime=2, TokLife=1, MaxFaults=0,
                  MaxInFlight=1, Kinds='{"app","callback","logout"}', Attacker="FALSE", WriteCreatesAbsent="TRUE",
                  KeyedByIdOnly="TRUE", ClearAbsentFails="FALSE", NoExpiresInMeansExpired="FALSE", Export="FALSE")
SCN_DEFAULT = dict(Prepared='"none"', Target=0, MaxLogouts=0, MaxApps=0, MaxCallbacks=0, AllowTick="FALSE", AllowAuthz="FALSE")


def cfg_text(spec, consts, invariants=(), view=None, extra=""):
    lines = ["SPECIFICATION " + spec, "CONSTANTS"]
    for k, v in consts.items():
        lines.append("  %s = %s" % (k, v))
    if view:
        lines.append("VIEW " + view)
    if invariants:
        lines.append("INVARIANTS " + " ".join(invariants))
    lines.append("CHECK_DEADLOCK FALSE")
    return "\n".join(lines) + "\n" + extra


def af_cfg(invariants, **over):
    c = dict(AF_DEFAULT)
    c.update(over)
    return cfg_text("Spec", c, invariants, view="view")


def scn_cfg(**over):
    c = dict(AF_DEFAULT)
    c.update(SCN_DEFAULT)
    c.update(over)
    c["Export"] = "TRUE"
    return cfg_text("SpecScn", c, ["ExportScn"])


def ans_spec(a, toklife):
    L = toklife * U + 50
    base = {"mode": "honest", "rt": True, "expiresIn": L, "idLife": L}
    if a == "ok":
        return base
    if a == "okNoRt":
        return dict(base, rt=False)
    if a == "okNoExpNoRt":
        return {"mode": "honest", "rt": False, "idLife": L}
    if a == "okRotate":
        return dict(base, rotate=True)
    if a == "failBefore":
        return {"mode": "drop" if ans_spec.drop else "fail-before"}   # connection closed without an answer / HTTP 500
    if a == "failAfter":
        return dict(base, mode="fail-after", rotate=True)
    if a == "badToken":
        return dict(base, id="audForeign")
    raise ValueError(a)


ans_spec.drop = False

F1 = {"name": "f1", "accessFwd": True, "logout": True}
F2 = {"name": "f2", "accessFwd": True, "logout": True, "prefix": "two"}


def conv(model, sid, toklife, filters=None, store="memory", probes=(), tags=()):
    """Convert a behaviour printed by TLC (AuthFlow!hist) into a driver scenario."""
    steps = []
    ans_spec.drop = bool(model.get("_drop"))
    if ans_spec.drop:
        sid += "/drop"
    for s in model["steps"]:
        op = s["op"]
        if op == "start":
            steps.append({"op": "start", "c": s["c"], "b": "b1", "f": s["f"], "kind": s["kind"], "cookie": s["cookie"],
                          "st": s["st"], "code": s["code"], "expect": model.get("out", {}).get(s["c"], "")})
        elif op == "step":
            d = {"fault": s["fault"]}
            if s["ans"]:
                d["ans"] = ans_spec(s["ans"], toklife)
            if s["jwks"]:
                d["jwks"] = s["jwks"]
            steps.append({"op": "step", "c": s["c"], "dir": d})
        elif op == "tick":
            steps.append({"op": "tick", "d": s["d"] * U})
        elif op == "authz":
            steps.append({"op": "authz", "b": "b1", "sid": s["sid"]})
    # let everything in flight finish, then the probes
    for p in probes:
        steps.append(dict(p))
    fl = [dict(f) for f in (filters or [F1])]
    for f in fl:
        f["store"] = store
    return {"id": sid, "cfg": {"filters": fl}, "steps": steps, "tags": list(tags)}


def redis_cmd_variants(sc, maxcmd=3):
    """For a Redis-backed scenario with a store fault 'before', the variants in which a single Redis command of that call fails;
    once as configured and once with session timeouts configured (every call then ends in an extra EXPIREAT command)."""
    out = []
    for timeouts in (False, True):
        for k in range(1, maxcmd + (2 if timeouts else 0) + 1):
            v = json.loads(json.dumps(sc))
            hit = False
            for st in v["steps"]:
                d = st.get("dir") or {}
                if d.get("fault") == "before":
                    d["fault"] = "cmd%d" % k
                    hit = True
            if hit:
                v["id"] = sc["id"] + "/cmd%d%s" % (k, "/ttl" if timeouts else "")
                if timeouts:
                    for f in v["cfg"]["filters"]:
                        if f.get("store") == "redis" and not f.get("abs") and not f.get("idle"):
                            f["abs"], f["idle"] = 50000, 30000
                for st in v["steps"]:
                    st.pop("expect", None)
                out.append(v)
    return out


def finish_all(model):
    cs = []
    for s in model["steps"]:
        if s["op"] == "start" and s["c"] not in cs:
            cs.append(s["c"])
    return [{"op": "finish", "c": c} for c in cs]


PROBE_APP = {"op": "check", "c": "probe", "b": "b1", "f": "f1", "kind": "app", "cookie": "sid:1", "url": 0,
             "ans": {"mode": "honest", "rt": True, "expiresIn": 150, "idLife": 150}}

# ---------------------------------------------------------------------------------------------
# result handling


def judge(prop, W, verdicts, scen_index, design_ok=True, extra_cov=None, level="model_checking", assumptions=(), traces=0, samples=None, trace_file=None):
    """verdicts: list of AuthMonitor outputs. Decide, print, write evidence."""
    known = vlib.load_known()
    kn = {(k["property"], k["monitor"], k["cause"]): k for k in known.get("known", [])}
    mine, others = {}, {}
    fired = {}
    drift = []
    for v in verdicts:
        for r in v["viol"]:
            key = (r["p"], r["m"], r["cause"])
            (mine if r["p"] == prop else others).setdefault(key, []).append(r)
        for k, n in (v.get("fired") or {}).items():
            fired[k] = fired.get(k, 0) + n
        drift += v.get("drift", [])
    rc = 0
    nviol = 0
    for key, recs in sorted(mine.items()):
        if key in kn:
            log("KNOWN-FINDING: property=%s %s/%s in %d scenario(s), e.g. %s -- %s" % (prop, key[1], key[2], len({r["sc"] for r in recs}), recs[0]["sc"], kn[key].get("what", "")))
            continue
        nviol += 1
        rc = 1
        rd = save_replay(prop, W, recs[0], scen_index, trace_file)
        log("VIOLATION property=%s replay=%s" % (prop, rd))
        log("  monitor=%s cause=%s scenarios=%d first=%s check#%s" % (key[1], key[2], len({r["sc"] for r in recs}), recs[0]["sc"], recs[0]["n"]))
    if others:
        log("[note] monitors of other properties fired on these traces (not judged here): " +
            ", ".join(sorted({"%s/%s/%s" % k for k in others})))
    if drift:
        ex = drift[0]
        log("SPEC-DRIFT: %d check(s) ended differently from the design model's prediction, e.g. scenario %s check#%s expected %s got %s (not a violation)" % (
            len(drift), ex["sc"], ex["n"], ex["expect"], ex["got"]))
    distinct = len({json.dumps({k: v for k, v in sc.items() if k != "id"}, sort_keys=True) for sc in scen_index.values()}) if scen_index else traces
    cov = {"states": max(W.tlc_states, 0), "transitions": max(W.tlc_transitions, 0), "traces_validated_against_impl": traces,
           "evaluations": traces, "distinct_nontrivial": distinct,
           "rule": "one evaluation = one scenario/case executed against the real code and judged by TLC; distinct = distinct scenario contents (ids ignored); "
                   "every scenario makes at least one call into the code under test, so none is trivial",
           "samples": samples or [], "tlc_runs": W.tlc_runs, "monitors_fired": fired, "drift": len(drift),
           "known_findings_reproduced": sorted("%s/%s" % (k[1], k[2]) for k in mine if k in kn),
           "exhaustive": True}
    if extra_cov:
        cov.update(extra_cov)
    vlib.write_evidence(prop, W.tier, W.seed, level, cov, time.time() - W.t0, nviol, list(assumptions))
    if rc == 0:
        log("OK property=%s tier=%s: held on everything explored (%d traces validated, %d model states)" % (prop, W.tier, traces, W.tlc_states))
    return rc


def save_replay(prop, W, rec, scen_index, trace_file=None):
    rd = os.path.join(VERIF, "run", "replay", "%s-%s" % (prop, str(rec["sc"]).replace("/", "_")))
    shutil.rmtree(rd, ignore_errors=True)
    os.makedirs(rd, exist_ok=True)
    sc = scen_index.get(rec["sc"])
    if sc is not None:
        with open(os.path.join(rd, "scenario.ndjson"), "w") as fh:
            fh.write(json.dumps(sc) + "\n")
    with open(os.path.join(rd, "violation.json"), "w") as fh:
        json.dump(rec, fh, indent=1)
    if trace_file and os.path.exists(trace_file):
        # the events the real code produced in that scenario (what the monitor judged)
        keep = False
        with open(trace_file) as src, open(os.path.join(rd, "events.ndjson"), "w") as dst:
            for line in src:
                if '"ev":"reset"' in line.replace(" ", ""):
                    keep = json.loads(line).get("scenario") == rec["sc"]
                if keep:
                    dst.write(line)
    return rd


def sample_events(trace, nscen=1, maxev=40):
    out, cur, n = [], [], 0
    with open(trace) as fh:
        for line in fh:
            ev = json.loads(line)
            if ev.get("ev") == "reset":
                n += 1
                if n > nscen:
                    break
            cur.append(ev)
            if len(cur) >= maxev:
                break
    return cur


# ---------------------------------------------------------------------------------------------
# system-driver pipeline shared by the AuthFlow family


def sys_pipeline(prop, W, scenarios, design_checks, assumptions, level="model_checking", replay=None, extra_cov=None, extra_verdicts=None):
    if replay:
        scenarios = [json.loads(l) for l in open(os.path.join(replay, "scenario.ndjson")) if l.strip()]
        log("[replay] %d scenario(s) from %s" % (len(scenarios), replay))
    if not scenarios:
        raise Infra("no scenarios generated")
    ids = set()
    for i, s in enumerate(scenarios):
        if s["id"] in ids:
            s["id"] = "%s#%d" % (s["id"], i)
        ids.add(s["id"])
    index = {s["id"]: s for s in scenarios}
    trace = W.drive("TestSys", scenarios, "sys")
    v = W.validate(trace, "sys")
    if v["fired"].get("scenarios", 0) != len(scenarios):
        raise Infra("monitor saw %s scenarios, driver ran %d" % (v["fired"].get("scenarios"), len(scenarios)))
    samples = [{"scenario": scenarios[0], "recorded_events": sample_events(trace)}]
    vs, traces = [v], len(scenarios)
    for ev in (extra_verdicts or []):
        idx = ev.pop("index", {})
        index.update(idx)
        traces += len(idx)
        vs.append(ev)
    return judge(prop, W, vs, index, level=level, assumptions=assumptions, traces=traces, samples=samples, extra_cov=extra_cov, trace_file=trace)


def sample(W, items, n):
    """Deterministic (seeded) sample of at most n items, keeping their order."""
    if len(items) <= n:
        return items
    rnd = random.Random(W.seed * 31 + len(items))
    idx = sorted(rnd.sample(range(len(items)), n))
    return [items[i] for i in idx]


def export(W, name, **over):
    out, viol = W.tlc_exhaustive("AuthFlowScn", scn_cfg(**over), name, workers=12, timeout=3000)
    ms = W.scenarios_from(out)
    # a failing token endpoint comes in two renderings: HTTP 500, and a connection closed without an answer
    res = []
    for m in ms:
        res.append(m)
        if any(s.get("ans") == "failBefore" for s in m["steps"]):
            res.append(dict(m, _drop=True))
    return res


# ---------------------------------------------------------------------------------------------
# C01 fail closed


def c01(W, replay=None):
    W.build()
    thorough = W.tier == "thorough"
    scen = []
    if not replay:
        # design level: the invariants hold on the model with attacker-chosen requests, interleavings and a fault budget
        W.tlc_exhaustive("AuthFlow", af_cfg(["TypeOK", "OkJustified", "FaultNeverOk", "TokensOnlyUnderIssued"],
                                            Checks="{1,2,3,4}" if thorough else "{1,2,3}", Attacker="TRUE", MaxFaults=2 if thorough else 1,
                                            MaxInFlight=2, TokLife=0), "c01-design", workers=16, timeout=3000)
        # scenario families: every fault position on every path (singly; pairs in the thorough tier)
        budget = 2 if thorough else 1
        fams = [("fresh", dict(MaxApps=1)), ("fresh", dict(MaxLogouts=1)), ("expired", dict(MaxApps=1)),
                ("expiredNoRt", dict(MaxApps=1)), ("midLogin", dict(MaxCallbacks=1))]
        for prep, kw in fams:
            ms = export(W, "c01-%s-%s" % (prep, "-".join(kw)), Prepared='"%s"' % prep, Target=1, MaxFaults=budget,
                        Checks="{1,2,3,4}", MaxSid=3, MaxTok=4, **kw)
            for stname in ("memory", "redis"):
                for i, m in enumerate(ms):
                    sc = conv(m, "c01/%s/%s/%s/%d" % (stname, prep, "-".join(kw), i), 1, store=stname,
                              probes=finish_all(m) + [PROBE_APP], tags=["faults"])
                    scen.append(sc)
                    if stname == "redis":
                        scen += redis_cmd_variants(sc, 6 if thorough else 3)
        scen += attacker_family(W, 400 if thorough else 120)
        scen += random_histories(W, 600 if thorough else 60, faults=True)
        scen += parallel_family(W, 200 if thorough else 20)
        scen += [x for x in family(W, "C15", "quick") if "/body/" in x["id"]]        # odd token-endpoint bodies (C01 rule for them)
        scen += [x for x in timeout_system_scenarios(W)] + decoy_family(W) + after_deny_family(W) + replica_family(W) + env_std(W) + debug_family(W) + subsecond_family(W) + nearby_paths_family(W) + lifetimes_family(W)
    return sys_pipeline("C01", W, scen, None, [
        "the ID-token expiry and signature ground truth comes from the simulated identity provider",
        "one check runs at a time between gates (store, token endpoint, key lookup); real parallelism inside a store call is C12's subject",
    ], replay=replay)


def parallel_family(W, n, flows=8):
    """Several browsers logging in truly in parallel (no gates): what only real parallelism inside a gate-free region shows."""
    res = []
    ans = {"mode": "honest", "rt": True, "expiresIn": 300, "idLife": 300}
    for i in range(n):
        st = ("memory", "redis")[i % 2]
        steps = [{"op": "parallel", "d": flows, "ans": ans}, {"op": "parallel", "d": flows, "ans": ans}]
        res.append({"id": "parallel/%s/%d" % (st, i), "cfg": {"filters": [dict(F1, store=st)]}, "steps": steps, "tags": ["parallel"]})
    # logins of two different filters (own client, callback, scopes, cookie prefix, provider) answered at the same time
    for i in range(max(n // 2, 4)):
        st = ("memory", "redis")[i % 2]
        f1 = dict(F1, store=st, clientId="client-one", scopes=["profile"], prefix="one")
        f2 = dict(F2, store=st if st == "memory" else "redis#1", clientId="client-two", scopes=["email", "groups"], idp="B", authzQuery="tenant=b&x=1")
        steps = [{"op": "parallel", "d": flows, "ans": ans}, {"op": "parallel", "d": flows, "ans": ans}]
        res.append({"id": "parallel2/%s/%d" % (st, i), "cfg": {"filters": [f1, f2]}, "steps": steps, "tags": ["parallel", "twoFilters"]})
        if i < 2:
            # a storm of cookie-less requests for both filters at once (each answered with a login redirect of its own filter)
            res.append({"id": "storm2/%s" % st, "cfg": {"filters": [f1, f2]}, "steps": [browse("b1", "f1", 1), {"op": "storm", "d": max(n * 4, 150), "ans": ans}],
                        "tags": ["parallel", "twoFilters"]})
    return res


ANS = {"mode": "honest", "rt": True, "expiresIn": 60, "idLife": 60}


def browse(b, f, url, ans=None):
    return {"op": "browse", "b": b, "f": f, "url": url, "ans": dict(ans or ANS)}


def app(b, f, cookie="jar", url=1, ans=None, **kw):
    return dict({"op": "check", "b": b, "f": f, "kind": "app", "cookie": cookie, "url": url, "ans": dict(ans or ANS)}, **kw)


def same_client_family(W):
    """Two filters that share the OIDC client id (and secret) but differ in key set, callback and cookie prefix."""
    res = []
    for st in ("memory", "redis"):
        for first in ("f1", "f2"):
            f1 = dict(F1, store=st, clientId="shared-client", clientSecret="SHARED-SECRET-8Hq2Lm5Zx7", prefix="one")
            f2 = dict(F2, store=st, clientId="shared-client", clientSecret="SHARED-SECRET-8Hq2Lm5Zx7", prefix="two", keySet="k3", idp="B")
            other = "f2" if first == "f1" else "f1"
            wrong_key = "k1" if other == "f2" else "k3"      # a token signed by the OTHER filter's key
            steps = [browse("b1", first, 1), app("b1", first), browse("b2", other, 2), app("b2", other),
                     # a third login at `other` answered with a token that only the first filter's key set would accept
                     app("b3", other, cookie="none", url=3), {"op": "authz", "b": "b3", "f": other},
                     {"op": "check", "b": "b3", "f": other, "kind": "callback", "cookie": "jar", "st": "jar", "code": "jar", "ans": dict(ANS, signKey=wrong_key)},
                     app("b3", other, url=3),
                     {"op": "check", "b": "b1", "f": first, "kind": "logout", "cookie": "jar"}, {"op": "check", "b": "b2", "f": other, "kind": "logout", "cookie": "jar"}]
            res.append({"id": "sameclient/%s/%s-first" % (st, first), "cfg": {"filters": [f1, f2]}, "steps": steps, "tags": ["sameClient"]})
    return res


def after_deny_family(W):
    """An OIDC filter followed by a denying (or allowing) mock filter in the same chain."""
    res = []
    for st in ("memory", "redis"):
        for after in ("deny", "allow"):
            for fwd in (True, False):
                f = dict(F1, store=st, after=after, accessFwd=fwd)
                steps = [app("b1", "f1", cookie="none"), {"op": "authz", "b": "b1", "sid": 1},
                         {"op": "check", "b": "b1", "f": "f1", "kind": "callback", "cookie": "jar", "st": "jar", "code": "jar", "ans": dict(ANS)},
                         app("b1", "f1"), {"op": "tick", "d": 61}, app("b1", "f1", ans=dict(ANS, rotate=True)), app("b1", "f1"),
                         {"op": "check", "b": "b1", "f": "f1", "kind": "logout", "cookie": "jar"}]
                res.append({"id": "afterfilter/%s/%s/%s" % (st, after, "fwd" if fwd else "nofwd"), "cfg": {"filters": [f]}, "steps": steps, "tags": ["afterFilter"]})
    return res


def discovery_family(W):
    """Discovery-based filters: two providers selected by the query of one discovery URL, override-based configuration with an
    inherited logout section, a provider that advertises only the plain PKCE method, an outage of discovery at the first request."""
    res = []
    for st in ("memory", "redis"):
        for first in ("f1", "f2"):
            for inherit in (False, True):
                f1 = dict(F1, store=st, discovery=True, idp="A", override=True, noLogoutRedirect=True, inheritLogout=inherit, prefix="one")
                f2 = dict(F2, store=st, discovery=True, idp="B", override=True, noLogoutRedirect=True, inheritLogout=inherit, prefix="two")
                other = "f2" if first == "f1" else "f1"
                steps = [browse("b1", first, 1), browse("b2", other, 2), app("b1", first), app("b2", other),
                         {"op": "check", "b": "b2", "f": other, "kind": "logout", "cookie": "jar"}, {"op": "check", "b": "b1", "f": first, "kind": "logout", "cookie": "jar"}]
                res.append({"id": "discovery/two/%s/%s-first/%s" % (st, first, "inherit" if inherit else "own"), "cfg": {"filters": [f1, f2]}, "steps": steps, "tags": ["discovery"]})
        for doc in ("pkcePlainOnly", "noMethods", "plainFirst", "scopesPartial"):
            f = dict(F1, store=st, discovery=True, discoveryDoc=doc)
            if doc == "scopesPartial":
                f["scopes"] = ["email", "profile"]
            res.append({"id": "discovery/%s/%s" % (doc, st), "cfg": {"filters": [f]}, "steps": [browse("b1", "f1", 1), app("b1", "f1")], "tags": ["discovery"]})
        # a logout path configured with a trailing slash
        f = dict(F1, store=st, logoutSlash=True)
        res.append({"id": "logoutSlash/%s" % st, "cfg": {"filters": [f]},
                    "steps": [browse("b1", "f1", 1), app("b1", "f1"), {"op": "check", "b": "b1", "f": "f1", "kind": "logout", "cookie": "jar"}, app("b1", "f1", cookie="sid:1")], "tags": ["discovery"]})
        # a discovered provider AND an explicitly configured end-session URI: the configured one is the one the logout answer names
        f = dict(F1, store=st, discovery=True, logoutRedirect="https://sso.example/configured-logout?src=app")
        res.append({"id": "discovery/configuredLogout/%s" % st, "cfg": {"filters": [f]},
                    "steps": [browse("b1", "f1", 1), app("b1", "f1"), {"op": "check", "b": "b1", "f": "f1", "kind": "logout", "cookie": "jar"}], "tags": ["discovery"]})
        f = dict(F1, store=st, discovery=True)
        res.append({"id": "discovery/outage/%s" % st, "cfg": {"filters": [f]},
                    "steps": [{"op": "idpctl", "d": 1}, app("b1", "f1", cookie="none"), app("b1", "f1", cookie="none"), browse("b1", "f1", 1), app("b1", "f1")], "tags": ["discoveryOutage"]})
    return res


def shared_callback_family(W):
    """Override-based filters that share the callback URI but differ in client id / secret / provider."""
    res = []
    for st in ("memory", "redis"):
        for first in ("f1", "f2"):
            f1 = dict(F1, store=st, override=True, prefix="", sharedCallback=True)
            f2 = dict(F2, store=st, override=True, prefix="", sharedCallback=True)
            other = "f2" if first == "f1" else "f1"
            steps = [browse("b1", first, 1), app("b1", first), browse("b2", other, 2), app("b2", other)]
            res.append({"id": "sharedcallback/%s/%s-first" % (st, first), "cfg": {"filters": [f1, f2]}, "steps": steps, "tags": ["sharedCallback"]})
    return res


def dup_chain_family(W):
    res = []
    for st in ("memory", "redis"):
        for first in ("f1", "f2"):
            f1 = dict(F1, store=st, chainName="same", prefix="one")
            f2 = dict(F2, store="redis" if st == "memory" else "redis2", chainName="same", prefix="two", idp="B", idHeader="x-id-two", idPreamble="Token")
            other = "f2" if first == "f1" else "f1"
            steps = [browse("b1", first, 1), app("b1", first), app("b1", other, cookieAs=first), browse("b2", other, 2), app("b2", other),
                     {"op": "check", "b": "b2", "f": other, "kind": "logout", "cookie": "jar"}]
            res.append({"id": "dupchain/%s/%s-first" % (st, first), "cfg": {"filters": [f1, f2]}, "steps": steps, "tags": ["dupChainNames"]})
    return res


def secret_rotation_family(W):
    """C19 at the token endpoint: a filter taking its secret from a Kubernetes Secret that is rotated between token requests."""
    res = []
    for st in ("memory", "redis"):
        for disc in (False, True):
            f = dict(F1, store=st, secretRef="n1", discovery=disc)
            g = dict(F2, store=st, secretRef="n1", prefix="two")      # a second filter referencing the same Secret
            h = dict(F2, name="f3", store=st, prefix="three")          # and one with a literal secret
            steps = [{"op": "secret", "f": "n1", "value": "K8S-SECRET-v1-Qw7Er9Ty2"}, browse("b1", "f1", 1), browse("b2", "f2", 2), browse("b3", "f3", 3),
                     {"op": "tick", "d": 61}, {"op": "secret", "f": "n1", "value": "K8S-SECRET-v2-Zx3Cv5Bn8"},
                     app("b1", "f1", ans=dict(ANS, rotate=True)), app("b2", "f2", ans=dict(ANS, rotate=True)), app("b3", "f3", ans=dict(ANS, rotate=True)),
                     {"op": "check", "b": "b1", "f": "f1", "kind": "logout", "cookie": "jar"}, browse("b1", "f1", 1),
                     {"op": "secret", "f": "n1", "value": "K8S-SECRET-v3-Lk1Jh4Gf6"}, {"op": "tick", "d": 61}, app("b1", "f1"), app("b2", "f2")]
            res.append({"id": "secretrotation/%s/%s" % (st, "discovery" if disc else "static"), "cfg": {"filters": [f, g, h]}, "steps": steps, "tags": ["secretRotation"]})
        # the Secret is rotated (and reconciled) while a check is in flight, waiting for the session store: the token request it
        # makes afterwards is made after the reconcile and carries the new value
        f = dict(F1, store=st, secretRef="n1")
        rot = dict(ANS, rotate=True)
        steps = [{"op": "secret", "f": "n1", "value": "K8S-SECRET-v1-Qw7Er9Ty2"}, browse("b1", "f1", 1),
                 app("b2", "f1", cookie="none", url=2), {"op": "authz", "b": "b2", "f": "f1"},
                 {"op": "start", "c": "cb", "b": "b2", "f": "f1", "kind": "callback", "cookie": "jar", "st": "jar", "code": "jar", "qshape": "ok", "ans": dict(ANS)},
                 {"op": "secret", "f": "n1", "value": "K8S-SECRET-v2-Zx3Cv5Bn8"},
                 {"op": "finish", "c": "cb", "ans": dict(ANS)}, app("b2", "f1", url=2),
                 {"op": "tick", "d": 61},
                 {"op": "start", "c": "rf", "b": "b1", "f": "f1", "kind": "app", "cookie": "jar", "url": 1, "ans": rot},
                 {"op": "secret", "f": "n1", "value": "K8S-SECRET-v3-Lk1Jh4Gf6"},
                 {"op": "finish", "c": "rf", "ans": rot}, app("b1", "f1", url=1)]
        res.append({"id": "secretrotation/%s/inflight" % st, "cfg": {"filters": [f]}, "steps": steps, "tags": ["secretRotation"]})
        # the very first request of a filter with discovery: the Secret is rotated and reconciled while the discovery document is being fetched
        f = dict(F1, store=st, secretRef="n1", discovery=True)
        steps = [{"op": "secret", "f": "n1", "value": "K8S-SECRET-v1-Qw7Er9Ty2"},
                 {"op": "idpctl", "d": 0, "f": "n1", "value": "K8S-SECRET-v2-Zx3Cv5Bn8"},
                 browse("b1", "f1", 1), {"op": "tick", "d": 61}, app("b1", "f1", ans=rot), app("b1", "f1")]
        res.append({"id": "secretrotation/%s/during-discovery" % st, "cfg": {"filters": [f]}, "steps": steps, "tags": ["secretRotation"]})
    return res


def replica_family(W):
    """Two instances of the service (one configuration, one Redis, one provider) behind a load balancer: what one instance
    stored, refreshed or removed is what the other one sees."""
    res = []
    short = {"mode": "honest", "rt": True, "rotate": True, "expiresIn": 60, "idLife": 60}
    long = {"mode": "honest", "rt": True, "expiresIn": 1000, "idLife": 1000}
    for tmo in (False, True):
        f = dict(F1, store="redis")
        if tmo:
            f.update(abs=5000, idle=3000)
        cfg = {"filters": [f], "replicas": 2}
        tag = "ttl" if tmo else "plain"
        A = lambda r, ans=short, **kw: dict(app("b1", "f1", cookie="sid:1", url=1, ans=ans), r=r, **kw)
        tick = lambda d_: {"op": "tick", "d": d_}
        # refresh on one instance, next request on the other
        steps = [dict(browse("b1", "f1", 1, ans=short), r=0), tick(59), A(1), tick(2), A(0), tick(1), A(1), tick(61), A(1), tick(1), A(0), tick(61), A(0), A(1)]
        res.append({"id": "replicas/refresh/%s" % tag, "cfg": cfg, "steps": steps, "tags": ["replicas"]})
        # logout on one instance, requests on the other before and after
        steps = [dict(browse("b1", "f1", 1, ans=long), r=0), tick(5), A(1, long), A(0, long),
                 {"op": "check", "b": "b1", "f": "f1", "kind": "logout", "cookie": "sid:1", "r": 0}, A(1, long), tick(1), A(1, long), A(0, long)]
        res.append({"id": "replicas/logout/%s" % tag, "cfg": cfg, "steps": steps, "tags": ["replicas"]})
        # every hop of the login on a different instance
        steps = [dict(browse("b1", "f1", 2, ans=long), r=-1), A(0, long), A(1, long), tick(1001), A(1, long), A(0, long)]
        res.append({"id": "replicas/login/%s" % tag, "cfg": cfg, "steps": steps, "tags": ["replicas"]})
        # a refresh that fails on one instance ends the session for the other too
        bad = dict(short, id="audForeign")
        steps = [dict(browse("b1", "f1", 1, ans=short), r=0), tick(30), A(1), tick(31), A(0, bad), A(1), A(0)]
        res.append({"id": "replicas/failed-refresh/%s" % tag, "cfg": cfg, "steps": steps, "tags": ["replicas"]})
    return res


ENVELOPES = ("post", "head", "preflight", "xhr", "proxied", "peers", "peersEmpty", "http", "port443")
# envelopes added later; kept out of the sampled families so that what those contain does not shift
ENVELOPES_LATER = ("port8443",)


def envelope_family(W, base, n):
    """Scenarios of `base` once more with every request dressed in something that does not change what it asks for: another
    method (POST, HEAD, a CORS preflight), headers set by scripts and proxies, peer addresses that are not sockets, plain http,
    the default port spelled out. Every property is judged as for the plain request. A seeded sample of n is kept."""
    out = []
    for k, sc in enumerate(base):
        env = ENVELOPES[k % len(ENVELOPES)]
        for e2 in (env, ENVELOPES[(k // len(ENVELOPES) + 3 * k + 1) % len(ENVELOPES)]):
            v = json.loads(json.dumps(sc))
            v["id"] = "%s/env-%s" % (sc["id"], e2)
            v["cfg"]["env"] = e2
            v["tags"] = list(v.get("tags", [])) + ["envelope"]
            for st in v["steps"]:
                st.pop("expect", None)
            out.append(v)
    return sample(W, out, n)


def envelope_cross(W, base):
    """Every scenario of `base` under EVERY envelope (no sampling: what is detected must not depend on the seed)."""
    out = []
    for sc in base:
        for e2 in ENVELOPES:
            v = json.loads(json.dumps(sc))
            v["id"] = "%s/env-%s" % (sc["id"], e2)
            v["cfg"]["env"] = e2
            v["tags"] = list(v.get("tags", [])) + ["envelope"]
            for st in v["steps"]:
                st.pop("expect", None)
            out.append(v)
    return out


def other_port_family(W):
    """Compliant logins with the application asked for on another port than the callback's: the login comes back to exactly
    the URL first requested, port included."""
    out = []
    for sc in [x for x in family(W, "C03", "quick") if x["id"].endswith("/u1") or "/none/" in x["id"]]:
        v = json.loads(json.dumps(sc))
        v["id"] = sc["id"] + "/env-port8443"
        v["cfg"]["env"] = "port8443"
        v["tags"] = list(v.get("tags", [])) + ["envelope"]
        for st in v["steps"]:
            st.pop("expect", None)
        out.append(v)
    return out


def envelope_late(W, base):
    """Every scenario of `base` with the login made by plain navigations and every LATER request of the scenario (the single
    checks that follow) under an envelope - each envelope in turn: a page's scripts, forms and proxies come after the login."""
    out = []
    for sc in base:
        if not any(st.get("op") == "browse" for st in sc["steps"]):
            continue
        for e2 in ENVELOPES + ENVELOPES_LATER:
            v = json.loads(json.dumps(sc))
            v["id"] = "%s/late-%s" % (sc["id"], e2)
            for st in v["steps"]:
                st.pop("expect", None)
                if st.get("op") in ("check", "start"):
                    st["env"] = e2
            v["tags"] = list(v.get("tags", [])) + ["envelope"]
            out.append(v)
    return out


def debug_family(W, n=None):
    """Scenarios run with log_level debug and the logging unit set up as cmd/main.go does (loggers are real, every log argument
    is formatted, main's "config-log" step dumps the configuration): logging must not change what the service does."""
    if n is None:
        n = 1200 if W.tier == "thorough" else 100
    key = "_env_base"
    if not hasattr(W, key):
        setattr(W, key, family(W, "C05", "quick") + family(W, "C11", "quick") + family(W, "C03", "quick"))
    out = []
    for sc in sample(W, getattr(W, key) + family(W, "C04", "quick"), n):
        v = json.loads(json.dumps(sc))
        v["id"] = sc["id"] + "/debug"
        v["cfg"]["logLevel"] = "debug"
        for st in v["steps"]:
            st.pop("expect", None)
        out.append(v)
    return out


def env_std(W, n=None):
    """The standard envelope family: presented-id histories (C05), refresh policies (C11) and compliant logins (C03) under envelopes."""
    if n is None:
        n = 2500 if W.tier == "thorough" else 200
    key = "_env_base"
    if not hasattr(W, key):
        setattr(W, key, family(W, "C05", "quick") + family(W, "C11", "quick") + family(W, "C03", "quick"))
    return envelope_family(W, getattr(W, key), n) + grpc_family(W, getattr(W, key), max(n // 2, 60))


def grpc_family(W, base, n):
    """Scenarios once more with the service reached the way Envoy reaches it: over a gRPC connection to server.Server
    (listener, interceptor chain, registered handler); what is judged is what arrives at the client, and - as the proxy does -
    an answer lets the request through iff its status code is OK. The discovery outages are always among them."""
    out = []
    must = [sc for sc in discovery_family(W)]
    for sc in must + sample(W, base, n):
        v = json.loads(json.dumps(sc))
        v["id"] = sc["id"] + "/grpc"
        v["cfg"]["grpc"] = True
        v["cfg"]["realJwks"] = len(out) % 2 == 0     # ... and every other one with the key provider object itself handed to the filter, as in main
        v["tags"] = list(v.get("tags", [])) + ["grpc"]
        out.append(v)
    return out


def subsecond_family(W):
    """Requests a fraction of a second after an expiry: a token that expires at T is expired at T + 0.35 s."""
    res = []
    for st in ("memory", "redis"):
        for rt in (False, True):
            for fwd in (False, True):
                ans = {"mode": "honest", "rt": rt, "rotate": True, "expiresIn": 60, "idLife": 60}
                steps = [browse("b1", "f1", 1, ans=ans), {"op": "tick", "d": 59}, app("b1", "f1", url=1, ans=ans), {"op": "tick", "d": 1},
                         app("b1", "f1", url=1, ans=ans),                     # exactly at the expiry
                         {"op": "tickms", "d": 350}, app("b1", "f1", url=1, ans=ans), app("b1", "f1", url=2, ans=ans)]
                res.append({"id": "subsecond/%s/%s/%s" % (st, "rt" if rt else "nort", "fwd" if fwd else "nofwd"),
                            "cfg": {"filters": [dict(F1, store=st, accessFwd=fwd)]}, "steps": steps, "tags": ["subsecond"]})
    return res


def tamper_family(W):
    """A Redis session record that is damaged or was written by another version of the service (no creation time, a creation time in
    another format): whatever the store makes of it, no crash, no OK the service cannot justify, no session beyond its limits."""
    res = []
    long = {"mode": "honest", "rt": True, "expiresIn": 100000, "idLife": 100000}
    for how in ("dropCreated", "epochCreated", "garbageCreated"):
        for (a, i) in ((0, 0), (300, 100)):
            app_ = {"op": "check", "b": "b1", "f": "f1", "kind": "app", "cookie": "sid:1", "url": 1, "ans": long}
            steps = [{"op": "browse", "b": "b1", "f": "f1", "url": 1, "ans": long}, {"op": "tick", "d": 10}, dict(app_),
                     {"op": "tamper", "cookie": "sid:1", "how": how}, dict(app_), {"op": "tick", "d": 90}, dict(app_), {"op": "tick", "d": 90}, dict(app_),
                     {"op": "tick", "d": 90}, dict(app_), {"op": "tick", "d": 90}, dict(app_), {"op": "check", "b": "b1", "f": "f1", "kind": "logout", "cookie": "sid:1"}]
            res.append({"id": "tamper/%s/a%d-i%d" % (how, a, i), "cfg": {"filters": [dict(F1, store="redis", abs=a, idle=i)]}, "steps": steps, "tags": ["tamper"]})
    return res


def nearby_paths_family(W):
    """Application requests for paths next to the callback and the logout path (a sibling, a longer path, a trailing slash, other
    case): they are application paths like any other - OK with a live session and nothing else in the answer, a login redirect without."""
    res = []
    for st in ("memory", "redis"):
        steps = [browse("b1", "f1", 1)]
        for k in range(10, 18):
            steps += [app("b1", "f1", url=k), app("b2", "f1", cookie="none", url=k)]
        res.append({"id": "nearby/%s" % st, "cfg": {"filters": [dict(F1, store=st)]}, "steps": steps, "tags": ["nearbyPaths"]})
    return res


def cancel_family(W, base):
    """The request's context is cancelled at one gate of a check that refreshes (Envoy's ext_authz timeout fired): whatever was already
    redeemed at the provider is either stored or the session is ended - never left holding what the provider has superseded."""
    out = []
    for sc in base:
        idx = [j for j, st in enumerate(sc["steps"]) if st.get("op") == "check" and st.get("kind") == "app"]
        if len(idx) < 2:
            continue
        j = idx[1] if sc["steps"][idx[0]].get("cookie") == "none" else idx[0]
        for gate in range(0, 5):
            v = json.loads(json.dumps(sc))
            v["id"] = "%s/cancel-g%d" % (sc["id"], gate)
            v["steps"][j]["dirs"] = {str(gate): {"cancel": True}}
            for st in v["steps"]:
                st.pop("expect", None)
            out.append(v)
    return out


def hammer_family(W):
    """Requests carrying one session cookie hammered truly in parallel (applications requests and logouts on a pending / an
    authenticated session), with a clock that is slow to read now and then."""
    # (240 rounds per scenario: the recorder's tables of symbols and secrets are per scenario and every answer is scanned against them)
    reps = 10 if W.tier == "thorough" else 1
    return [{"id": "hammer/%s/%d" % (st, r), "cfg": {"filters": [dict(F1, store=st)]}, "steps": [{"op": "hammer", "f": "f1", "d": 240, "ans": dict(ANS)}], "tags": ["hammer"]}
            for st in ("memory", "redis") for r in range(reps)]


def decoy_family(W):
    res = []
    for st in ("memory", "redis"):
        for prefix in ("", "pfx"):
            f = dict(F1, store=st, prefix=prefix)
            steps = [browse("b1", "f1", 1),
                     app("b2", "f1", cookie="sid:1", decoy="only", url=2),        # the victim's id planted in a look-alike cookie only: no session
                     app("b1", "f1", decoy="before"),                               # a look-alike cookie before the real one
                     {"op": "check", "b": "b1", "f": "f1", "kind": "logout", "cookie": "jar", "decoy": "before"},
                     app("b1", "f1", cookie="sid:1"),
                     {"op": "check", "b": "b2", "f": "f1", "kind": "logout", "cookie": "sid:1", "decoy": "only"}]
            res.append({"id": "decoy/%s/%s" % (st, prefix or "noprefix"), "cfg": {"filters": [f]}, "steps": steps, "tags": ["decoyCookie"]})
            # a look-alike cookie carrying ANOTHER live session's id precedes the real session cookie
            ans = PROBE_APP["ans"]
            cb = lambda b, cookie, stt, code, **kw: dict({"op": "check", "b": b, "f": "f1", "kind": "callback", "cookie": cookie, "st": stt, "code": code, "qshape": "ok", "ans": ans}, **kw)
            steps = [app("b1", "f1", cookie="none", url=1), app("b2", "f1", cookie="none", url=2),
                     {"op": "authz", "b": "b1", "sid": 1}, {"op": "authz", "b": "b2", "sid": 2},
                     # b2 presents its own (pending) session, the look-alike cookie names b1's; state and code are b1's
                     cb("b2", "sid:2", "sid:1", "code:1", decoy="before", decoySid="sid:1"),
                     cb("b1", "sid:1", "sid:1", "code:1"),                              # the honest completion still works
                     app("b1", "f1", cookie="sid:1", url=1),
                     # an authenticated look-alike does not authenticate the real (unknown) cookie
                     app("b2", "f1", cookie="sid:2", decoy="before", decoySid="sid:1", url=2)]
            res.append({"id": "decoy/live/%s/%s" % (st, prefix or "noprefix"), "cfg": {"filters": [f]}, "steps": steps, "tags": ["decoyCookie"]})
    return res


def attacker_family(W, n):
    """Random walks (TLC -simulate) of AuthFlow with attacker-chosen cookie, state and code."""
    cfg = cfg_text("Spec", dict(AF_DEFAULT, Checks="{1,2,3,4,5,6}", Attacker="TRUE", MaxFaults=1, MaxInFlight=2, MaxSid=3, MaxTok=4,
                                MaxCode=3, Export="TRUE"), ["ExportInv"])
    out, gen, dist, viol, d = W.tlc("AuthFlow", cfg, "attacker-sim", workers=1, simulate="num=%d" % n,
                                    extra=["-depth", "40", "-seed", str(W.seed)], timeout=600)
    ms = W.scenarios_from(out)
    # keep maximal behaviours only: a behaviour that is a prefix of a later one adds nothing
    keep, seen = [], set()
    for m in reversed(ms):
        key = json.dumps(m["steps"])
        if any(k.startswith(key[:-1]) for k in seen):
            continue
        seen.add(key)
        keep.append(m)
    keep = keep[: n]
    res = []
    for i, m in enumerate(keep):
        res.append(conv(m, "attacker/%d" % i, 1, store=("memory", "redis")[i % 2], probes=finish_all(m), tags=["attacker"]))
    log("[gen] attacker family: %d behaviours from TLC -simulate (seed %d)" % (len(res), W.seed))
    return res


def random_histories(W, n, faults=False, filters=None, long=False):
    """Seeded random sequential histories beyond the bounded model (recorded and validated like all others)."""
    rnd = random.Random(W.seed * 7919 + 13)
    res = []
    for i in range(n):
        steps = []
        nsid = 0
        fl = [dict(f) for f in (filters or [F1])]
        life = rnd.choice([30, 60, 120])
        for f in fl:
            f["store"] = rnd.choice(["memory", "redis"])
            f["accessFwd"] = rnd.random() < 0.6
        for k in range(rnd.randint(8, 40 if long else 18)):
            r = rnd.random()
            f = rnd.choice(fl)["name"]
            ans = {"mode": "honest", "rt": rnd.random() < 0.7, "rotate": rnd.random() < 0.5, "expiresIn": rnd.choice([life, life, 2 * life]),
                   "idLife": life}
            if rnd.random() < 0.15:
                ans["omitId"] = True
            if rnd.random() < 0.15:
                ans["omitAt"] = True
            dirs = {}
            if faults and rnd.random() < 0.25:
                g = str(rnd.randint(0, 5))
                dirs[g] = rnd.choice([{"fault": "before"}, {"fault": "after"}, {"jwks": "fail"}, {"ans": {"mode": "fail-before"}}, {"ans": {"mode": "drop"}},
                                      {"ans": dict(ans, mode="fail-after")}, {"ans": dict(ans, id=rnd.choice(["foreignKey", "audForeign", "sigTampered"]))}])
            b = rnd.choice(["b1", "b1", "b2"])
            if r < 0.3:
                steps.append({"op": "browse", "b": b, "f": f, "url": rnd.randrange(6), "ans": ans, "maxHops": 6})
            elif r < 0.6:
                steps.append({"op": "check", "b": b, "f": f, "kind": "app", "cookie": rnd.choice(["jar", "jar", "jar", "none", "forged", "sid:1", "sid:2"]),
                              "url": rnd.randrange(6), "ans": ans, "dirs": dirs})
            elif r < 0.7:
                steps.append({"op": "check", "b": b, "f": f, "kind": "logout", "cookie": rnd.choice(["jar", "jar", "none", "sid:1"]), "dirs": dirs})
            elif r < 0.8:
                steps.append({"op": "check", "b": b, "f": f, "kind": "callback", "cookie": rnd.choice(["jar", "sid:1", "forged", "none"]),
                              "st": rnd.choice(["jar", "sid:1", "sid:2", "bogus", "none"]), "code": rnd.choice(["jar", "code:1", "bogus", "none"]),
                              "qshape": rnd.choice(["ok", "ok", "reordered", "dupGoodFirst", "dupBadFirst", "caseKeys", "pctzz"]), "ans": ans, "dirs": dirs})
            else:
                steps.append({"op": "tick", "d": rnd.choice([1, 5, life // 2, life, life + 1, 3 * life])})
        res.append({"id": "random/%d" % i, "cfg": {"filters": fl}, "steps": steps, "tags": ["random"]})
    return res


# ---------------------------------------------------------------------------------------------
# C09 logout is final


def c09(W, replay=None):
    W.build()
    thorough = W.tier == "thorough"
    scen = []
    if not replay:
        # design level: with the code's design choice the model violates the invariants, with the other it holds
        base = dict(Checks="{1,2,3,4}", MaxInFlight=2, TokLife=0, Kinds='{"app","callback","logout"}', Attacker="FALSE", MaxSid=2, MaxTok=3)
        out, viol = W.tlc_exhaustive("AuthFlow", af_cfg(["LoggedOutStaysDead", "NoOkAfterLogout"], WriteCreatesAbsent="FALSE", **base),
                                     "c09-design-conditional-write", workers=16, timeout=3000)
        if viol:
            raise Infra("AuthFlow with WriteCreatesAbsent=FALSE violates %s: the specification is wrong" % viol)
        out, viol = W.tlc_exhaustive("AuthFlow", af_cfg(["LoggedOutStaysDead"], WriteCreatesAbsent="TRUE", **base),
                                     "c09-design-as-coded", workers=16, timeout=3000, expect_violation=True)
        log("[design] as coded (writes create absent sessions) the model %s LoggedOutStaysDead" % ("VIOLATES" if viol else "satisfies"))
        # every interleaving of one logout with one (quick) / two (thorough) concurrent checks on the same session
        fams = [("fresh", dict(MaxApps=1)), ("expired", dict(MaxApps=1)), ("midLogin", dict(MaxCallbacks=1))]
        if thorough:
            fams += [("expired", dict(MaxApps=2)), ("fresh", dict(MaxApps=2)), ("midLogin", dict(MaxCallbacks=1, MaxApps=1)), ("expiredNoRt", dict(MaxApps=1))]
        for prep, kw in fams:
            infl = 1 + sum(kw.values())
            for stname in ("memory", "redis"):
                ms = export(W, "c09-%s-%s-%s" % (prep, "-".join("%s%d" % kv for kv in kw.items()), stname), Prepared='"%s"' % prep, Target=1, MaxLogouts=1,
                            MaxInFlight=infl, Checks="{1,2,3,4,5,6}", MaxSid=4, MaxTok=5, TokLife=1, Kinds='{"app","callback","logout"}',
                            ClearAbsentFails="TRUE" if stname == "redis" else "FALSE", **kw)
                if len(ms) > 2500:
                    log("[gen] %d schedules enumerated, a seeded sample of 2500 is replayed" % len(ms))
                    ms = sample(W, ms, 2500)
                for i, m in enumerate(ms):
                    scen.append(conv(m, "c09/%s/%s/%s/%d" % (stname, prep, "-".join(kw), i), 1, store=stname,
                                     filters=[F1 if i % 2 == 0 else dict(F1, prefix="tenant-7")],
                                     probes=finish_all(m) + [PROBE_APP], tags=["logout-race"]))
        # a logout whose removal fails: before / after taking effect, and (Redis) at a single Redis command
        for prep in ("fresh", "expired", "midLogin"):
            ms = export(W, "c09-faulty-logout-%s" % prep, Prepared='"%s"' % prep, Target=1, MaxLogouts=1, MaxFaults=1, MaxInFlight=1,
                        Checks="{1,2,3,4}", MaxSid=3, MaxTok=4, TokLife=1, Kinds='{"logout"}')
            for stname in ("memory", "redis"):
                for i, m in enumerate(ms):
                    sc = conv(m, "c09/faulty-logout/%s/%s/%d" % (stname, prep, i), 1, store=stname,
                              probes=finish_all(m) + [PROBE_APP], tags=["logout-fault"])
                    scen.append(sc)
                    if stname == "redis":
                        scen += redis_cmd_variants(sc)
        scen += logout_histories(W, 300 if thorough else 40)
        scen += discovery_family(W) + dup_chain_family(W) + decoy_family(W) + held_call_family(W) + replica_family(W) + env_std(W) + debug_family(W)
    extra = []
    if replay and os.path.exists(os.path.join(replay, "scenario.ndjson")):
        rs = [json.loads(l) for l in open(os.path.join(replay, "scenario.ndjson")) if l.strip()]
        if rs and rs[0].get("conc"):
            # a concurrent store history: the schedule is not reproducible, the same operations are run concurrently again (a few times)
            rv = removed_stays_removed(W, 0, given=rs * 100)
            idx = rv.pop("index")
            return judge("C09", W, [rv], idx, traces=len(rs) * 100, samples=[{"scenario": rs[0]}])
    if not replay:
        extra.append(removed_stays_removed(W, 800 if thorough else 100))
    return sys_pipeline("C09", W, scen, None, [
        "interleavings are at store-call / token-endpoint-call / key-lookup granularity (the gates of the harness)",
        "a check whose last store access preceded the logout's removal and which is answered later is treated as an answer delayed in the network",
    ], replay=replay, extra_verdicts=extra)


def removed_stays_removed(W, n, given=None):
    """The in-memory store's own clean-up (RemoveAllExpired) as an actor concurrent with removals (what a logout does) and
    reads: sessions within their limits, hundreds of them, swept again and again while two goroutines remove a session and
    read it afterwards. Judged by RemovedTrace.tla: what was removed with no write in flight is not there afterwards."""
    rnd = random.Random(W.seed * 15485863 + 3)
    scen = [dict(g, id="%s#%d" % (g["id"], i)) for i, g in enumerate(given or [])]
    for k in range(0 if given else n):
        a, i = rnd.choice([(70, 50), (70, 0), (0, 50)])
        pre = []
        sids = ["s1", "s2", "s3", "s4", "s5", "s6"]
        for sid in sids:
            pre += [{"op": "SetAuth", "sid": sid, "v": rnd.randint(1, 3)}, {"op": "SetTok", "sid": sid, "v": rnd.randint(1, 3)}]
        pre.append({"op": "flood", "sid": "s1", "v": rnd.choice([100, 300, 600])})
        pre.append({"op": "tick", "v": rnd.choice([1, 5, 20])})
        ops = [{"op": "sweep", "sid": "s1", "v": 0, "thr": 9} for _ in range(4)] + [{"op": "sweep", "sid": "s1", "v": 0, "thr": 8} for _ in range(3)]
        for thr, sid in enumerate(sids):
            ops += [{"op": op, "sid": sid, "v": 0, "thr": thr + 1} for op in (rnd.choice(["GetTok", "GetAuth"]), "Remove", "GetTok", "GetAuth")]
        scen.append({"id": "rsr/%d" % k, "store": "memory", "abs": a, "idle": i, "conc": True, "pre": pre, "ops": ops})
    trace = W.drive("TestStore", scen, "rsr", env_extra={"VERIF_CLOCK_JITTER": "1"})
    v = W.validate(trace, "rsr", module="RemovedTrace")
    v["index"] = {s_["id"]: s_ for s_ in scen}
    return v


def held_call_family(W):
    """A Redis store call of an in-flight check parked between two of its Redis commands while a logout runs (sub-call interleavings)."""
    res = []
    long = {"mode": "honest", "rt": True, "expiresIn": 1000, "idLife": 1000}
    short = {"mode": "honest", "rt": True, "rotate": True, "expiresIn": 60, "idLife": 60}
    for k in (1, 2, 3):
        for mode in ("fresh", "refresh"):
            ans = long if mode == "fresh" else short
            steps = [{"op": "browse", "b": "b1", "f": "f1", "url": 1, "ans": ans}]
            # time passes before the in-flight request (whatever a store may remember from the login is no longer recent)
            steps.append({"op": "tick", "d": 61 if mode == "refresh" else 7})
            steps += [{"op": "start", "c": "inflight", "b": "b1", "f": "f1", "kind": "app", "cookie": "sid:1", "url": 1, "ans": ans},
                      {"op": "step", "c": "inflight", "dir": {"fault": "hold%d" % k}},      # its first store call parks after k Redis commands
                      {"op": "check", "c": "logout", "b": "b1", "f": "f1", "kind": "logout", "cookie": "sid:1"},
                      {"op": "finish", "c": "inflight", "ans": ans},
                      dict(PROBE_APP, c="probe1"), dict(PROBE_APP, c="probe2")]
            res.append({"id": "c09/held/%s/hold%d" % (mode, k), "cfg": {"filters": [dict(F1, store="redis", abs=5000, idle=3000)]}, "steps": steps, "tags": ["heldCall"]})
    return res


def logout_histories(W, n):
    rnd = random.Random(W.seed * 104729 + 9)
    res = []
    for i in range(n):
        st = rnd.choice(["memory", "redis"])
        life = 60
        ans = {"mode": "honest", "rt": True, "rotate": rnd.random() < 0.5, "expiresIn": life, "idLife": life}
        steps = [{"op": "browse", "b": "b1", "f": "f1", "url": rnd.randrange(4), "ans": ans}]
        for k in range(rnd.randint(3, 12)):
            r = rnd.random()
            if r < 0.3:
                steps.append({"op": "check", "b": "b1", "f": "f1", "kind": "logout", "cookie": rnd.choice(["jar", "sid:1", "sid:2"])})
            elif r < 0.7:
                steps.append({"op": "check", "b": "b1", "f": "f1", "kind": "app", "cookie": rnd.choice(["jar", "sid:1", "sid:2"]), "url": 0, "ans": ans})
            elif r < 0.85:
                steps.append({"op": "tick", "d": rnd.choice([10, 61, 200])})
            else:
                steps.append({"op": "browse", "b": "b1", "f": "f1", "url": rnd.randrange(4), "ans": ans})
        res.append({"id": "logout-history/%d" % i, "cfg": {"filters": [dict(F1, store=st)]}, "steps": steps, "tags": ["logout-history"]})
    return res


# ---------------------------------------------------------------------------------------------
# grammar families enumerated by TLC (specs/Families.tla)


def family(W, fam, tier=None):
    cfg = 'SPECIFICATION Spec\nCONSTANTS\n  Family = "%s"\n  Tier = "%s"\nINVARIANT Emit\nCHECK_DEADLOCK FALSE\n' % (fam, tier or W.tier)
    out, viol = W.tlc_exhaustive("Families", cfg, "family-" + fam, workers=1, timeout=1200)
    sc = W.scenarios_from(out)
    log("[gen] family %s: %d scenarios enumerated by TLC" % (fam, len(sc)))
    return sc


def design_mc(W, name, invariants, **over):
    base = dict(Checks="{1,2,3}", MaxInFlight=2, Attacker="TRUE", MaxFaults=1, TokLife=0)
    if W.tier == "thorough":
        base.update(Checks="{1,2,3,4}")
    base.update(over)
    out, viol = W.tlc_exhaustive("AuthFlow", af_cfg(invariants, **base), name, workers=16, timeout=3000)
    if viol:
        raise Infra("AuthFlow violates %s in configuration %s: the specification is wrong or the design is" % (viol, name))


ASSUME_SYS = [
    "token ground truth (signature, audience, nonce, expiry) comes from the simulated identity provider that rendered the token",
    "one check runs at a time between gates (store call, token-endpoint call, key lookup)",
]


# ---------------------------------------------------------------------------------------------
# key source (KeySource.tla / KeySourceTrace.tla): what "the filter's configured key set" is when it is fetched


def key_source(W, n, given=None):
    """Design check of KeySource.tla, its behaviours replayed into the real DefaultJWKSProvider (1 s refresh interval, real time),
    the recorded lookups explained by KeySourceTrace.tla (silent refresh steps placed by TLC)."""
    if given is None:
        consts = 'CONSTANTS\n  MaxGen = 3\n  MaxOps = %d\n  Export = FALSE\n' % (8 if W.tier == "thorough" else 7)
        props_ = "INVARIANTS OwnKeysOnly Served StaticIsStatic\nPROPERTIES NoRollback ErrOnlyUncached FreshAfterRound%s\nVIEW DView\nCHECK_DEADLOCK FALSE\n"
        # safety as coded; availability (a lookup errs only while the source is down) holds only for the design that retries the first fetch
        out, viol = W.tlc_exhaustive("KeySource", "SPECIFICATION Spec\n" + consts + "  RetryFirstFetch = FALSE\n" + props_ % "", "keysource-design", workers=8, timeout=1200)
        if viol:
            raise Infra("KeySource violates %s: the specification is wrong" % viol)
        out, viol = W.tlc_exhaustive("KeySource", "SPECIFICATION Spec\n" + consts + "  RetryFirstFetch = TRUE\n" + props_ % " ErrOnlySourceDown", "keysource-design-retry", workers=8, timeout=1200)
        if viol:
            raise Infra("KeySource (retrying design) violates %s: the specification is wrong" % viol)
        out, viol = W.tlc_exhaustive("KeySource", "SPECIFICATION Spec\n" + consts + "  RetryFirstFetch = FALSE\n" + props_ % " ErrOnlySourceDown", "keysource-design-as-coded", workers=8, timeout=1200, expect_violation=True)
        if "ErrOnlySourceDown" not in (viol or []):
            raise Infra("KeySource as coded is expected to violate ErrOnlySourceDown (failed first fetch sticks); TLC reports %s" % viol)
        log("[design] as coded (only the first lookup fetches synchronously) the model violates ErrOnlySourceDown: an observation on availability, not a listed property")
        consts = 'CONSTANTS\n  MaxGen = 3\n  MaxOps = %d\n  Export = TRUE\n  RetryFirstFetch = FALSE\n' % (6 if W.tier == "thorough" else 5)
        out, viol = W.tlc_exhaustive("KeySource", "SPECIFICATION Spec\n" + consts + "INVARIANT ExportScn\nCHECK_DEADLOCK FALSE\n", "keysource-export", workers=8, timeout=1200)
        allb = W.scenarios_from(out)
        # behaviours worth the real seconds they cost: a lookup after something happened at the source, at most two waits
        def worth(b):
            st = b["steps"]
            return sum(1 for x in st if x["op"] == "wait") <= 2 and any(x["op"] in ("rotate", "mode") for x in st) and st[-1]["op"] == "get"
        cand = [b for b in allb if worth(b)]
        # two thirds of the replayed behaviours contain a wait (a refresh round), which costs real seconds
        def after_wait(b):
            ops = [x["op"] for x in b["steps"]]
            return "wait" in ops and any(o in ("rotate", "mode") for o in ops[:len(ops) - 1 - ops[::-1].index("wait")])
        waits = [b for b in cand if after_wait(b)]
        rest = [b for b in cand if not after_wait(b)]
        scen = sample(W, waits, n - n // 3) + sample(W, rest, n // 3)
        log("[gen] KeySource: %d behaviours enumerated by TLC, %d with a source event before a final lookup, %d replayed" % (len(allb), len(cand), len(scen)))
        for i, b in enumerate(scen):
            b["id"] = "keysource/%d" % i
    else:
        scen = given
    trace = W.drive("TestJwks", scen, "jwks", timeout=1500)
    return key_source_judge(W, trace, scen)


def key_source_judge(W, trace, scen, name="jwks"):
    outf = W.path(name + ".verdict.json")
    cfg = ('INIT TInitL\nNEXT TNext\nCONSTANTS\n  MaxGen = 99\n  MaxOps = 0\n  Export = FALSE\n  RetryFirstFetch = FALSE\n  TraceFile = "%s"\n  OutFile = "%s"\n'
           'CONSTRAINT Mark\nINVARIANTS TInv Done\nPOSTCONDITION Post\nCHECK_DEADLOCK FALSE\n' % (trace, outf))
    out, gen, dist, viol, d = W.tlc("KeySourceTrace", cfg, name + "-trace", workers=1, timeout=1800, jvm=["-Dtlc2.tool.queue.IStateQueue=StateDeque"])
    if viol:
        raise Infra("KeySourceTrace: %s violated on a state the trace search reached -- the specification is wrong:\n%s" % (viol, out[-1500:]))
    if not os.path.exists(outf):
        raise Infra("KeySourceTrace produced no verdict:\n" + out[-2000:])
    r = json.load(open(outf))
    W.tlc_states += dist
    W.tlc_transitions += gen
    v = {"viol": [], "fired": {"keySourceBehaviours": len(scen)}, "drift": [], "index": {s_["id"]: s_ for s_ in scen}}
    lines = [json.loads(x) for x in open(trace)]
    def scen_of(pos):
        sid = "?"
        for e in lines[:pos]:
            if e.get("ev") == "jreset":
                sid = e["scenario"]
        return sid
    for pos in sorted(r.get("odd") or []):
        v["drift"].append({"sc": scen_of(pos), "n": pos, "expect": "keys", "got": "lookup erred although the source answers or keys were cached"})
    if r["consumed"] < r["len"]:
        pos = r["consumed"] + 1                      # the first line no placement of refreshes explains
        e = lines[pos - 1]
        sid = scen_of(pos)
        if e.get("ev") == "get" and e.get("res") == "err":
            v["drift"].append({"sc": sid, "n": pos, "expect": "keys", "got": "lookup erred although keys must have been cached"})
        elif e.get("ev") == "get":
            uri_of = {"f1": "u1", "f3": "u1", "f2": "u2", "fs": "static"}
            cause = ("key-set-not-from-any-source" if e.get("uri") == "?" else
                     "key-set-of-another-source" if e.get("uri") != uri_of.get(e.get("f")) else "key-set-stale-or-never-served")
            v["viol"].append({"p": "C02", "m": "KeySource", "cause": cause, "sc": sid, "n": pos, "at": pos, "event": e})
        else:
            raise Infra("KeySourceTrace stuck at line %d on a non-lookup event %s" % (pos, e))
        log("[trace] jwks: the search stopped at line %d of %d (%s); later behaviours were not judged" % (pos, r["len"], e))
    log("[trace] jwks: %d behaviours (%d events) of the real key provider searched for an explanation by KeySourceTrace (%d states); %s" % (
        len(scen), r["len"], dist, "all explained" if r["consumed"] >= r["len"] else "stuck at line %d" % (r["consumed"] + 1)))
    return v



def c02(W, replay=None):
    W.build()
    scen = []
    if not replay:
        design_mc(W, "c02-design", ["TokensOnlyUnderIssued", "TokensFromOwnLogin"])
        scen = family(W, "C02")
        scen += key_source_dimension(W, [x for x in scen if "/v0/" in x["id"]], 400 if W.tier == "thorough" else 80)
        # a forged refresh answer racing with a second check on the same session, at gate granularity
        ms = export(W, "c02-forged-refresh-race", Prepared='"expired"', Target=1, MaxApps=2, MaxInFlight=2, MaxFaults=1,
                    Checks="{1,2,3,4,5}", MaxSid=4, MaxTok=5, TokLife=1, Kinds='{"app"}')
        ms = [m for m in ms if any(s.get("ans") == "badToken" for s in m["steps"])]
        ms = sample(W, ms, 1500 if W.tier == "thorough" else 120)
        for stname in ("memory", "redis"):
            scen += [conv(m, "c02/race/%s/%d" % (stname, i), 1, store=stname, probes=finish_all(m) + [PROBE_APP]) for i, m in enumerate(ms)]
        scen += same_client_family(W) + after_deny_family(W) + dup_chain_family(W)
        # compliant answers in all their shapes (without expires_in, without a refresh token, ...): what is forwarded is what is bound
        scen += [x for x in family(W, "C03", "quick") if x["id"].endswith("/u1")] + env_std(W, 60) + debug_family(W, 40)
        if W.tier == "thorough":
            scen += random_histories(W, 800, faults=True)
    extra = []
    if replay and scen == [] and os.path.exists(os.path.join(replay, "scenario.ndjson")):
        rs = [json.loads(l) for l in open(os.path.join(replay, "scenario.ndjson")) if l.strip()]
        if rs and str(rs[0].get("id", "")).startswith("keysource"):
            kv = key_source(W, 0, given=rs)
            idx = kv.pop("index")
            return judge("C02", W, [kv], idx, traces=len(rs), samples=[{"scenario": rs[0]}])
    if not replay:
        extra.append(key_source(W, 300 if W.tier == "thorough" else 36))
    return sys_pipeline("C02", W, scen, None, ASSUME_SYS + ["the strength of jws.Verify itself is trusted; classes are the enumerated grammar and its rendered variants",
                                                            "key source: fetched key sets are identified by their key ids; a wait is longer than interval + refresh window (1 s + 1 s) and at most 8 s"],
                        replay=replay, extra_verdicts=extra)


def c03(W, replay=None):
    W.build()
    if not replay:
        # design level: the browser process on AuthFlow reaches OK after one pass (invariant + liveness under weak fairness);
        # with the repaired defect switched back on (a login answer without expires_in stored as expired) both fail
        consts = dict(AF_DEFAULT, Checks="{1,2,3,4,5,6}", MaxSid=3, MaxTok=4, MaxCode=3, MaxTime=1, TokLife=1, Kinds='{"app","callback"}')
        good = cfg_text("BSpec", consts, ["OnePass", "NotStuck"], extra="PROPERTY LoginEnds\n")
        out, viol = W.tlc_exhaustive("AuthFlowBrowser", good, "c03-design", workers=4, timeout=1200)
        if viol:
            raise Infra("AuthFlowBrowser violates %s: the specification is wrong" % viol)
        bad = cfg_text("BSpec", dict(consts, NoExpiresInMeansExpired="TRUE"), ["OnePass", "NotStuck"], extra="PROPERTY LoginEnds\n")
        out, viol = W.tlc_exhaustive("AuthFlowBrowser", bad, "c03-design-defect", workers=4, timeout=1200, expect_violation=True)
        log("[design] with 'no expires_in means expired' the browser model %s OnePass / LoginEnds" % ("VIOLATES" if viol else "satisfies"))
    scen = [] if replay else family(W, "C03") + same_client_family(W) + [x for x in discovery_family(W) if "pkce" not in x["id"] and "noMethods" not in x["id"]] + env_std(W) + debug_family(W) + other_port_family(W)
    return sys_pipeline("C03", W, scen, None, ASSUME_SYS + ["callback and logout paths satisfy the trigger rules (documented precondition)",
                                                         "the browser follows every 302 and keeps cookies per RFC 6265 user-agent parsing"], replay=replay)


def c04(W, replay=None):
    W.build()
    scen = []
    if not replay:
        design_mc(W, "c04-design", ["ExchangeBound", "TokensFromOwnLogin"], Kinds='{"app","callback"}', MaxCode=3 if W.tier == "thorough" else 2)
        scen = family(W, "C04") + c04_fault_replay() + attacker_family(W, 600 if W.tier == "thorough" else 150) + parallel_family(W, 400 if W.tier == "thorough" else 40)
        scen += family(W, "C18", "quick") + same_client_family(W) + discovery_family(W) + dup_chain_family(W) + shared_callback_family(W) + decoy_family(W) + secret_rotation_family(W) + env_std(W) + debug_family(W)
    return sys_pipeline("C04", W, scen, None, ASSUME_SYS + ["the simulated token endpoint logs exactly what it was sent and is strict (RFC 6749/7636)"], replay=replay)


def key_source_dimension(W, fam, n):
    """Scenarios once more with the key set FETCHED from the provider's key endpoint instead of configured statically, and
    the filter handed the key provider object itself, as cmd/main.go does (no wrapper that narrows its type)."""
    out = []
    for k, sc in enumerate(sample(W, fam, n)):
        v = json.loads(json.dumps(sc))
        v["id"] = sc["id"] + "/fetchedKeys"
        for f in v["cfg"]["filters"]:
            if k % 3 == 2:
                f["discovery"] = True
            else:
                f["jwks"] = "fetch"
        v["cfg"]["realJwks"] = True
        for st in v["steps"]:
            st.pop("expect", None)
        out.append(v)
    return out


def two_database_timeouts(W):
    """Two filters on ONE Redis server, in different databases, with different timeouts (and the two orders of naming them):
    each filter's sessions live by that filter's own limits."""
    res = []
    long = {"mode": "honest", "rt": True, "expiresIn": 100000, "idLife": 100000}
    for order in ("strictFirst", "relaxedFirst"):
        strict = dict(F1, store="redis", abs=0, idle=100)
        relaxed = dict(F2, store="redis#1", abs=1000, idle=0)
        fl = [strict, relaxed] if order == "strictFirst" else [relaxed, strict]
        steps = [browse("b1", "f1", 1, ans=long), browse("b2", "f2", 2, ans=long), {"op": "tick", "d": 50}, app("b1", "f1", url=1, ans=long), app("b2", "f2", url=2, ans=long),
                 {"op": "tick", "d": 150}, app("b1", "f1", url=1, ans=long), app("b2", "f2", url=2, ans=long),      # f1's idle limit has passed, f2 is well inside its absolute one
                 {"op": "tick", "d": 900}, app("b2", "f2", url=2, ans=long)]                                          # ... and now past it
        res.append({"id": "c10sys/twoDatabases/%s" % order, "cfg": {"filters": fl}, "steps": steps, "tags": ["timeouts"]})
    return res


def lifetimes_family(W):
    """Sessions whose tokens run out in unusual (legal) ways: no refresh token and everything expired; an ID token that outlives
    the access token (or the reverse) with the provider failing - in every way it can - exactly when the one that ran out is to
    be renewed. The presented session is destroyed before a new login starts; nothing is let through on a failed renewal."""
    res = []
    fails = [("drop", {"mode": "drop"}), ("failBefore", {"mode": "fail-before"}), ("status500", {"mode": "status:500"}),
             ("emptyObject", {"mode": "body:emptyObject"}), ("null", {"mode": "body:null"}), ("honest", {})]
    for st in ("memory", "redis"):
        for fwd in (True, False):
            f = dict(F1, store=st, accessFwd=fwd)
            # no refresh token: login, expiry, the old cookie comes back
            a = {"mode": "honest", "rt": False, "expiresIn": 60, "idLife": 60}
            res.append({"id": "lifetimes/%s/%s/noRt" % (st, "fwd" if fwd else "nofwd"), "cfg": {"filters": [f]}, "tags": ["lifetimes"],
                        "steps": [browse("b1", "f1", 1, ans=a), {"op": "tick", "d": 7200}, app("b1", "f1", url=1, ans=a), app("b1", "f1", url=2, ans=a)]})
            for (idl, atl, tick) in ((600, 60, 61), (60, 600, 61)):
                for name, failing in fails:
                    a = {"mode": "honest", "rt": True, "rotate": True, "expiresIn": atl, "idLife": idl}
                    bad = dict(a, **failing)
                    res.append({"id": "lifetimes/%s/%s/id%d-at%d/%s" % (st, "fwd" if fwd else "nofwd", idl, atl, name), "cfg": {"filters": [f]}, "tags": ["lifetimes"],
                                "steps": [browse("b1", "f1", 1, ans=a), {"op": "tick", "d": tick}, app("b1", "f1", url=1, ans=bad), app("b1", "f1", url=2, ans=a)]})
    return res


def c04_fault_replay():
    """Every store call of an otherwise successful callback fails once (a store error; with Redis also the first / second
    Redis command of the call, or an error after the command took effect); then the browser goes on, and the callback is
    replayed with the same cookie, state and code. A session that holds tokens has no usable login state left."""
    res = []
    for st in ("memory", "redis"):
        for gate in range(0, 6):
            for fault in (("before", "after", "cmd1", "cmd2") if st == "redis" else ("before", "after")):
                cb = {"op": "check", "b": "b1", "f": "f1", "kind": "callback", "cookie": "jar", "st": "jar", "code": "jar", "qshape": "ok", "ans": dict(ANS)}
                steps = [app("b1", "f1", cookie="none"), {"op": "authz", "b": "b1", "sid": 1},
                         dict(cb, dirs={str(gate): {"fault": fault}}), app("b1", "f1"), dict(cb), app("b1", "f1"),
                         {"op": "authz", "b": "b1", "sid": 1}, dict(cb, code="jar"), app("b1", "f1")]
                res.append({"id": "c04fault/%s/g%d-%s" % (st, gate, fault), "cfg": {"filters": [dict(F1, store=st)]}, "steps": steps, "tags": ["faults"]})
    return res


def c05_fault_sweep(fam):
    """The request of every C05 family scenario (default cookie prefix) once more with one store call failing: a store error,
    or (Redis) a failing first / second Redis command of that call. No new session may be handed out over an undestroyed old one."""
    preplen = {"absent": 0, "stale": 2, "forged": 0, "pending": 2, "authenticated": 1, "otherBrowser": 1}
    out = []
    for sc in fam:
        _, pres, kind, prefix, store = sc["id"].split("/")
        if prefix != "" or kind == "callback":
            continue
        j = preplen[pres]
        for gate in range(0, 4):
            for fault in (("before", "cmd1", "cmd2") if store == "redis" else ("before",)):
                v = json.loads(json.dumps(sc))
                v["id"] = sc["id"] + "/fault/g%d-%s" % (gate, fault)
                v["steps"][j]["dirs"] = {str(gate): {"fault": fault}}
                for st in v["steps"]:
                    st.pop("expect", None)
                v["tags"] = list(v.get("tags", [])) + ["faults"]
                out.append(v)
    # a Redis server that answers the removal of the old session later than the client library waits (3.3 s of real time; the library retries): the login goes on only once the old session is gone
    for sc in fam:
        _, pres, kind, prefix, store = sc["id"].split("/")
        if store == "redis" and prefix == "" and kind == "app" and pres in ("pending", "stale"):
            v = json.loads(json.dumps(sc))
            v["id"] = sc["id"] + "/fault/g1-slow"
            v["steps"][preplen[pres]]["dirs"] = {"1": {"fault": "slow1:3300"}}
            for st in v["steps"]:
                st.pop("expect", None)
            out.append(v)
    return out


def c05(W, replay=None):
    W.build()
    scen = []
    if not replay:
        design_mc(W, "c05-design", ["TokensOnlyUnderIssued"])
        fam = family(W, "C05")
        scen = fam + lifetimes_family(W) + c05_fault_sweep(fam) + envelope_late(W, fam if W.tier == "quick" else family(W, "C05", "quick")) + replica_family(W) + env_std(W) + debug_family(W) + family(W, "C04", "quick") + attacker_family(W, 400 if W.tier == "thorough" else 80) + decoy_family(W) + parallel_family(W, 200 if W.tier == "thorough" else 20)
        if W.tier == "thorough":
            scen += random_histories(W, 500)
    return sys_pipeline("C05", W, scen, None, ASSUME_SYS, replay=replay)


def c11(W, replay=None):
    W.build()
    scen = []
    if not replay:
        scen = family(W, "C11")
        # a refresh whose result fails validation, racing with / followed by another check on the same session
        ms = export(W, "c11-failed-refresh-race", Prepared='"expired"', Target=1, MaxApps=2, MaxInFlight=2, MaxFaults=1,
                    Checks="{1,2,3,4,5}", MaxSid=4, MaxTok=5, TokLife=1, Kinds='{"app"}')
        ms = sample(W, [m for m in ms if any(s.get("ans") == "badToken" for s in m["steps"])], 1000 if W.tier == "thorough" else 80)
        scen += [conv(m, "c11/race/%d" % i, 1, store=("memory", "redis")[i % 2], probes=finish_all(m) + [PROBE_APP]) for i, m in enumerate(ms)]
        scen += replica_family(W) + env_std(W) + debug_family(W) + envelope_late(W, family(W, "C11", "quick"))
        scen += [x for x in family(W, "C15", "quick") if "/body/" in x["id"]]        # refresh exchanges answered with something that is no token response
        scen += lifetimes_family(W)
        scen += cancel_family(W, [x for x in scen if x["id"].startswith(("c11/rotate/n1", "c11/noRotate/n1", "c11/omitId/n1", "c11/badSig/n1"))])
        # every single fault position on the refresh path (store calls, provider, key lookup; Redis: single commands)
        ms = export(W, "c11-faults", Prepared='"expired"', Target=1, MaxApps=1, MaxFaults=2 if W.tier == "thorough" else 1, Checks="{1,2,3,4}", MaxSid=3, MaxTok=4)
        for stname in ("memory", "redis"):
            for i, m in enumerate(ms):
                sc = conv(m, "c11/faults/%s/%d" % (stname, i), 1, store=stname, probes=finish_all(m) + [PROBE_APP, PROBE_APP], tags=["faults"])
                scen.append(sc)
                if stname == "redis":
                    scen += redis_cmd_variants(sc, 6 if W.tier == "thorough" else 3)
        if W.tier == "thorough":
            scen += random_histories(W, 500, long=True)
    return sys_pipeline("C11", W, scen, None, ASSUME_SYS + ["histories are sequential (the property quantifies over histories, not schedules)"], replay=replay)


def c13_histories(W):
    """Logins that follow an abandoned one: the browser still holds the cookie of a pending (or finished, or logged-out) session when
    it asks for another URL; the login that completes returns to the URL of ITS first request."""
    res = []
    for st in ("memory", "redis"):
        for prior in ("pending", "authenticated", "loggedOut", "pendingTwice"):
            steps = []
            if prior in ("pending", "pendingTwice"):
                steps += [app("b1", "f1", cookie="none", url=2)]
            if prior == "pendingTwice":
                steps += [app("b1", "f1", cookie="jar", url=4)]
            if prior in ("authenticated", "loggedOut"):
                steps += [browse("b1", "f1", 2)]
            if prior == "loggedOut":
                steps += [{"op": "check", "b": "b1", "f": "f1", "kind": "logout", "cookie": "jar"}]
            if prior == "authenticated":
                steps += [{"op": "tick", "d": 61}]
            # the browser (still holding whatever cookie it has) now asks for another URL and follows the redirects
            steps += [dict(browse("b1", "f1", 5, ans=dict(ANS, rt=False))), app("b1", "f1", url=5)]
            res.append({"id": "c13/history/%s/%s" % (prior, st), "cfg": {"filters": [dict(F1, store=st)]}, "steps": steps, "tags": ["urlHistories"]})
    return res


def c13(W, replay=None):
    W.build()
    # (the C05 family brings the histories: a login abandoned half-way, a stale or foreign cookie, then a login that completes)
    scen = [] if replay else family(W, "C13") + discovery_family(W) + parallel_family(W, 200 if W.tier == "thorough" else 20) + c13_histories(W) + family(W, "C05", "quick") + env_std(W) + debug_family(W) + other_port_family(W)
    return sys_pipeline("C13", W, scen, None, ASSUME_SYS + ["Location values are parsed with net/url, independently of how the service assembled them"], replay=replay)


def c14(W, replay=None):
    W.build()
    scen = []
    if not replay:
        scen = family(W, "C02", "quick") + family(W, "C11", "quick") + family(W, "C15", "quick") + family(W, "C05", "quick")
        for prep, kw in [("expired", dict(MaxApps=1)), ("midLogin", dict(MaxCallbacks=1)), ("fresh", dict(MaxLogouts=1))]:
            ms = export(W, "c14-%s" % prep, Prepared='"%s"' % prep, Target=1, MaxFaults=2 if W.tier == "thorough" else 1, Checks="{1,2,3,4}", MaxSid=3, MaxTok=4, **kw)
            scen += [conv(m, "c14/%s/%d" % (prep, i), 1, store=("memory", "redis")[i % 2], probes=finish_all(m) + [PROBE_APP]) for i, m in enumerate(ms)]
        scen += random_histories(W, 500 if W.tier == "thorough" else 50, faults=True)
        scen += after_deny_family(W) + discovery_family(W) + parallel_family(W, 100 if W.tier == "thorough" else 10) + secret_rotation_family(W) + env_std(W) + debug_family(W) + nearby_paths_family(W)
    return sys_pipeline("C14", W, scen, None, ASSUME_SYS + ["every secret is a unique marker; an occurrence raw, percent-, base64-, base64url- or hex-encoded is detected"], replay=replay)


def c15(W, replay=None):
    W.build()
    scen = []
    if not replay:
        scen = family(W, "C15") + discovery_family(W) + after_deny_family(W) + hammer_family(W) + env_std(W) + debug_family(W) + family(W, "C04", "quick") + tamper_family(W)
        if W.tier == "thorough":
            scen += random_histories(W, 500, faults=True)
    return sys_pipeline("C15", W, scen, None, ["a panic is recovered by the harness around ExtAuthZFilter.Check and logged as an event no action of the specification accepts as well-formed"],
                        level="exploration", replay=replay, extra_cov={"rule": "one scenario per element of Families!C15Space (request shape x path x session, provider body class x grant, claim-type class x variant); distinct = distinct scenario ids"})


def c18(W, replay=None):
    W.build()
    scen = []
    if not replay:
        out, viol = W.tlc_exhaustive("AuthFlow", af_cfg(["HonouredOnlyByCreator"], Checks="{1,2,3,4}", Filters="{1,2}", MaxInFlight=1, Attacker="TRUE", TokLife=1,
                                                       Kinds='{"app","callback"}', KeyedByIdOnly="FALSE"), "c18-design-keyed-by-filter", workers=16, timeout=3000)
        if viol:
            raise Infra("AuthFlow with KeyedByIdOnly=FALSE violates %s" % viol)
        out, viol = W.tlc_exhaustive("AuthFlow", af_cfg(["HonouredOnlyByCreator"], Checks="{1,2,3,4}", Filters="{1,2}", MaxInFlight=1, Attacker="TRUE", TokLife=1,
                                                       Kinds='{"app","callback"}', KeyedByIdOnly="TRUE"), "c18-design-as-coded", workers=16, timeout=3000, expect_violation=True)
        log("[design] as coded (shared store looked up by session id alone) the model %s HonouredOnlyByCreator" % ("VIOLATES" if viol else "satisfies"))
        scen = family(W, "C18") + same_client_family(W) + discovery_family(W) + dup_chain_family(W) + shared_callback_family(W)
    return sys_pipeline("C18", W, scen, None, ASSUME_SYS, replay=replay)


# ---------------------------------------------------------------------------------------------
# store level: C12 (one abstract session map) and C10 (timeouts)

SM_SCALE = 10


def sm_cfg(sids, abs_, idle, maxtime, maxlen=12, export=True):
    c = dict(Sids=sids, Toks="{1,2}", Auths="{1}", Abs=abs_, Idle=idle, MaxTime=maxtime, MaxLen=maxlen, Export="TRUE" if export else "FALSE")
    return cfg_text("Spec", c, ["NeverHonouredLate"], view="view",
                    extra="PROPERTIES CreatedFixed NoInterference RemoveErases ClearKeepsTok\nACTION_CONSTRAINT PrintTransition\n")


def store_scenarios(W, quick_cap):
    """One operation sequence per transition of SessionMap's state graph, for several (Abs, Idle) configurations."""
    thorough = W.tier == "thorough"
    limits = [(0, 0), (2, 0), (0, 1), (2, 1)] + ([(1, 0), (0, 2), (1, 1), (1, 2), (2, 2)] if thorough else [])
    res = []
    for (a, i) in limits:
        for sids, maxtime, cap in (("{1}", 4, None if thorough else quick_cap), ("{1,2}", 2, None if thorough else quick_cap // 2)):
            if not thorough and sids == "{1,2}" and (a, i) not in ((0, 0), (2, 1)):
                continue
            out, viol = W.tlc_exhaustive("SessionMap", sm_cfg(sids, a, i, maxtime), "sm-a%d-i%d-%s" % (a, i, "one" if sids == "{1}" else "two"), workers=1, timeout=1200)
            if viol:
                raise Infra("SessionMap violates %s" % viol)
            hs = W.scenarios_from(out)
            if cap:
                hs = sample(W, hs, cap)
            for k, h in enumerate(hs):
                ops = []
                for j, o in enumerate(h):
                    if o["op"] == "tick":
                        ops.append({"op": "tick", "v": o["v"] * SM_SCALE})
                    else:
                        ops.append({"op": o["op"], "sid": "s%d" % o["sid"], "v": o["v"], "via": j % 2})
                # read everything back at the end: interference and lost members show up here
                for s_ in ("s1", "s2"):
                    ops += [{"op": "GetTok", "sid": s_, "via": 1}, {"op": "GetAuth", "sid": s_, "via": 0}]
                for st in ("memory", "redis"):
                    res.append({"id": "sm/%s/a%d-i%d/%s/%d" % (st, a, i, "one" if sids == "{1}" else "two", k), "store": st,
                                "abs": a * SM_SCALE + 5 if a else 0, "idle": i * SM_SCALE + 5 if i else 0, "ops": ops})
    return res


def store_random(W, n, maxlen):
    rnd = random.Random(W.seed * 15485863 + 3)
    res = []
    for k in range(n):
        a, i = rnd.choice([0, 7, 20, 45]), rnd.choice([0, 5, 12, 30])
        ops = []
        for j in range(rnd.randint(10, maxlen)):
            r = rnd.random()
            sid = "s%d" % rnd.randint(1, 3)
            if r < 0.2:
                ops.append({"op": "tick", "v": rnd.choice([1, 1, 2, 3, 5, 8, 13, 21])})
            elif r < 0.4:
                ops.append({"op": "SetTok", "sid": sid, "v": rnd.randint(1, 4), "via": rnd.randint(0, 1)})
            elif r < 0.5:
                ops.append({"op": "SetAuth", "sid": sid, "v": rnd.randint(1, 4), "via": rnd.randint(0, 1)})
            elif r < 0.7:
                ops.append({"op": "GetTok", "sid": sid, "via": rnd.randint(0, 1)})
            elif r < 0.8:
                ops.append({"op": "GetAuth", "sid": sid, "via": rnd.randint(0, 1)})
            elif r < 0.9:
                ops.append({"op": "ClearAuth", "sid": sid, "via": rnd.randint(0, 1)})
            else:
                ops.append({"op": "Remove", "sid": sid, "via": rnd.randint(0, 1)})
        for st in ("memory", "redis"):
            res.append({"id": "smrandom/%s/%d" % (st, k), "store": st, "abs": a, "idle": i, "ops": ops})
    # a crowded store: more than a thousand other sessions are created between a write and the reads of it (ids do not interfere,
    # whatever limits are configured - none, one of them, both)
    for k, (a, i) in enumerate([(0, 0), (45, 0), (0, 30), (45, 30)]):
        ops = [{"op": "SetTok", "sid": "s1", "v": 1, "via": 0}, {"op": "SetAuth", "sid": "s2", "v": 2, "via": 0}, {"op": "tick", "v": 2},
               {"op": "flood", "sid": "x", "v": 1100, "via": 0}, {"op": "GetTok", "sid": "s1", "via": 0}, {"op": "GetAuth", "sid": "s2", "via": 0},
               {"op": "flood", "sid": "y", "v": 1100, "via": 0}, {"op": "tick", "v": 3}, {"op": "GetTok", "sid": "s1", "via": 0}, {"op": "GetAuth", "sid": "s2", "via": 0}]
        for st in ("memory", "redis"):
            res.append({"id": "smflood/%s/%d" % (st, k), "store": st, "abs": a, "idle": i, "ops": ops})
    # Redis: one command of one operation fails. Either the operation reports it (nothing more is known about the id), or it
    # claims success and then everything must be as if it had succeeded
    k = 0
    victims = [{"op": "SetTok", "sid": "s1", "v": v} for v in (1, 2, 3, 4)] + [{"op": "SetAuth", "sid": "s1", "v": 2}, {"op": "ClearAuth", "sid": "s1"},
                                                                            {"op": "GetTok", "sid": "s1"}, {"op": "GetAuth", "sid": "s1"}, {"op": "Remove", "sid": "s1"}]
    for (a, i) in ((0, 0), (45, 30)):
        for v1 in (1, 2, 3, 4):
            for victim in victims:
                for fk in range(1, 9):
                    k += 1
                    ops = [{"op": "SetTok", "sid": "s1", "v": v1, "via": 0}, {"op": "SetAuth", "sid": "s1", "v": v1, "via": 1}]
                    ops.append(dict(victim, via=k % 2, fault=fk))
                    ops += [{"op": "GetTok", "sid": "s1", "via": 1}, {"op": "GetAuth", "sid": "s1", "via": 0}, {"op": "tick", "v": 3}, {"op": "GetTok", "sid": "s1", "via": 0}]
                    res.append({"id": "smfault/redis/%d" % k, "store": "redis", "abs": a, "idle": i, "ops": ops})
    return res


def store_pipeline(prop, W, scen, replay=None, assumptions=()):
    if replay:
        scen = [json.loads(l) for l in open(os.path.join(replay, "scenario.ndjson")) if l.strip()]
    index = {s["id"]: s for s in scen}
    trace = W.drive("TestStore", scen, "store")
    v = W.validate(trace, "store", module="StoreTrace")
    if v["fired"].get("scenarios", 0) != len(scen):
        raise Infra("StoreTrace saw %s scenarios, driver ran %d" % (v["fired"].get("scenarios"), len(scen)))
    for r in v["viol"]:
        r["m"] = "StoreRefinesSessionMap"
        r["n"] = r["at"]
        r["cause"] = "%s@%s:%s" % (r["cause"], r["store"], r["op"])
    return v, index, trace


def redis_pairs(W, cap):
    """RedisStore.tla at Redis-command granularity: every schedule of two operations by two replicas, replayed with miniredis' command hook as gate."""
    cfg = cfg_text("Spec", dict(Export="TRUE"), ["PrintSchedule"])
    out, viol = W.tlc_exhaustive("RedisStore", cfg, "redis-pairs", workers=8, timeout=1800)
    by = {}
    for m in W.scenarios_from(out):
        by.setdefault((m["opA"], m["opB"], m["start"]), []).append(m)
    scen = []
    for (a, b, st), ms in sorted(by.items()):
        ms = sample(W, ms, cap)
        for i, m in enumerate(ms):
            m["id"] = "redispair/%s-%s/%s/%d" % (a, b, st, i)
        scen += ms
    trace = W.drive("TestRedisPair", scen, "redispair", timeout=1800)
    v = W.validate(trace, "redispair", module="RedisPairTrace")
    if v["fired"].get("scenarios", 0) != len(scen):
        raise Infra("RedisPairTrace judged %s schedules, driver ran %d" % (v["fired"].get("scenarios"), len(scen)))
    torn = v.get("torn") or {}
    if torn:
        log("[observation] outcomes of two concurrent Redis-store operations that no sequential order explains (outside the listed properties): " +
            ", ".join("%s x%d" % kv for kv in sorted(torn.items())))
    v["index"] = {m["id"]: m for m in scen}
    return v, len(scen)


def inductive_session_map(W):
    """Apalache: the reference's invariant is inductive and its action properties follow from it in one step, with no bound
    on time or history length (SessionMapInd.tla). About the specification only; a tool that cannot run is reported, not fatal."""
    d = W.path("apalache")
    os.makedirs(d, exist_ok=True)
    shutil.copy(os.path.join(W.specs, "SessionMapInd.tla"), d)
    res = {}
    for name, args in (("Init=>IndInv", ["--init=Init", "--inv=IndInv", "--length=0"]),
                       ("IndInv/\\Next=>IndInv'", ["--init=IndInit", "--inv=IndInv", "--length=1"]),
                       ("IndInv/\\Next=>ActionProps", ["--init=IndInit", "--inv=ActionProps", "--length=1"])):
        try:
            p = subprocess.run(["apalache-mc", "check", "--cinit=ConstInit", "--out-dir=" + os.path.join(d, "out")] + args + ["SessionMapInd.tla"],
                               cwd=d, capture_output=True, text=True, timeout=600)
        except (OSError, subprocess.TimeoutExpired) as e:
            res[name] = "not run (%s)" % type(e).__name__
            continue
        if p.returncode == 0 and "NoError" in p.stdout:
            res[name] = "holds"
        elif p.returncode == 12:
            raise Infra("SessionMapInd: %s fails -- the specification is wrong:\n%s" % (name, p.stdout[-1500:]))
        else:
            res[name] = "not run (apalache exit %d)" % p.returncode
    log("[apalache] SessionMapInd (unbounded time, 3 ids): " + "; ".join("%s %s" % kv for kv in res.items()))
    return res


def c12(W, replay=None):
    W.build()
    if replay:
        rs = [json.loads(l) for l in open(os.path.join(replay, "scenario.ndjson")) if l.strip()]
        if rs and rs[0].get("conc") and "pre" in rs[0] and not str(rs[0].get("id", "")).startswith("memstore/"):
            lv = lin_expired(W, 0, given=rs * 300)
            idx = lv.pop("index")
            return judge("C12", W, [lv], idx, traces=len(rs) * 300, samples=[{"scenario": rs[0]}])
        if rs and rs[0].get("conc"):
            # a concurrent history: the schedule is not reproducible, the same operations are run concurrently again (a few times)
            lv = linearizability(W, 0, given=rs * 50)
            idx = lv.pop("index")
            return judge("C12", W, [lv], idx, traces=len(rs) * 50, samples=[{"scenario": rs[0]}])
        if rs and "schedule" in rs[0]:
            trace = W.drive("TestRedisPair", rs, "redispair")
            v = W.validate(trace, "redispair", module="RedisPairTrace")
            return judge("C12", W, [v], {r["id"]: r for r in rs}, traces=len(rs), samples=[{"scenario": rs[0]}])
    scen = [] if replay else store_scenarios(W, 600) + store_random(W, 1500 if W.tier == "thorough" else 150, 80)
    v, index, trace = store_pipeline("C12", W, scen, replay)
    vs = [v]
    if not replay:
        lv = linearizability(W, 3000 if W.tier == "thorough" else 300)
        index.update(lv.pop("index"))
        vs.append(lv)
        xv = lin_expired(W, 2000 if W.tier == "thorough" else 200)
        index.update(xv.pop("index"))
        vs.append(xv)
        # the lock-granularity model of the store, and every history of its initial-state family on the real store
        fam = memstore_design(W)
        mv = linearizability(W, 0, given=fam * (8 if W.tier == "thorough" else 2), name="linfam")
        index.update(mv.pop("index"))
        mv["fired"] = {"memStoreFamilyHistories": mv["fired"].get("linearizabilityHistories", 0)}
        vs.append(mv)
        rv, nr = redis_pairs(W, 400 if W.tier == "thorough" else 25)
        index.update(rv.pop("index"))
        vs.append(rv)
        if W.tier == "thorough":
            inductive_session_map(W)
    return judge("C12", W, vs, index, traces=len(scen), samples=[{"scenario": scen[0], "recorded_events": sample_events(trace, maxev=30)}],
                 assumptions=["results and the projected real state (probe) of the touched id are logged after every operation; miniredis stands in for Redis",
                              "the three named deviations of DESIGN.md 4.1 are allowed (ClearAbsentFails, ReadNothingMayNotTouch, BoundaryEither)"])


def c10(W, replay=None):
    W.build()
    scen = [] if replay else store_scenarios(W, 600) + store_random(W, 1500 if W.tier == "thorough" else 150, 60)
    v, index, trace = store_pipeline("C10", W, scen, replay)
    vs = [v]
    traces = len(scen)
    if not replay:
        # system level: through the real factory wiring (PreRun) and ExtAuthZFilter.Check with the virtual clock
        sys_sc = timeout_system_scenarios(W) + tamper_family(W) + two_database_timeouts(W)
        index.update({s["id"]: s for s in sys_sc})
        tr2 = W.drive("TestSys", sys_sc, "sys")
        vs.append(W.validate(tr2, "sys"))
        traces += len(sys_sc)
        # the service as actually assembled: the binary built from ./cmd, real configuration file, gRPC, real time
        bv, bsc = binary_tier(W)
        index.update({s_["id"]: s_ for s_ in bsc})
        vs.append(bv)
        traces += len(bsc)
    return judge("C10", W, vs, index, traces=traces, samples=[{"scenario": scen[0] if scen else None, "recorded_events": sample_events(trace, maxev=30)}],
                 assumptions=["virtual clock through the verif clock hook (H1) and miniredis SetTime/FastForward",
                              "limits are exercised away from the exact boundary second at store level; the monitor allows either outcome within one second of a limit"])


def binary_tier(W):
    binp = W.path("authservice-bin")
    p = subprocess.run(["go", "build", "-o", binp, "./cmd"], cwd=vlib.REPO, env=vlib.goenv(), capture_output=True, text=True, timeout=900)
    if p.returncode != 0:
        raise Infra("building ./cmd failed:\n" + p.stdout[-2000:] + p.stderr[-2000:])
    scen = []
    for st in ("memory", "redis"):
        scen += [{"id": "c10bin/%s/abs4" % st, "store": st, "abs": 4, "idle": 0, "probes": [1.0, 2.0, 6.5]},
                 {"id": "c10bin/%s/idle3" % st, "store": st, "abs": 0, "idle": 3, "probes": [1.0, 2.2, 3.4, 8.5]},
                 {"id": "c10bin/%s/abs7idle3" % st, "store": st, "abs": 7, "idle": 3, "probes": [1.2, 2.4, 3.6, 4.8, 9.2]},
                 {"id": "c10bin/%s/none" % st, "store": st, "abs": 0, "idle": 0, "probes": [1.0, 5.0]}]
    if W.tier == "thorough":
        for st in ("memory", "redis"):
            scen += [{"id": "c10bin/%s/idle2-late" % st, "store": st, "abs": 0, "idle": 2, "probes": [4.5]},
                     {"id": "c10bin/%s/abs5-active" % st, "store": st, "abs": 5, "idle": 0, "probes": [1.0, 2.0, 3.0, 7.0, 8.0]},
                     {"id": "c10bin/%s/abs10idle4" % st, "store": st, "abs": 10, "idle": 4, "probes": [2.0, 4.0, 6.0, 8.0, 12.5]}]
    trace = W.drive("TestBinary", scen, "binary", env_extra={"VERIF_BIN": binp}, timeout=600)
    v = W.validate(trace, "binary", module="BinaryTrace")
    if v["fired"].get("scenarios", 0) != len(scen):
        raise Infra("BinaryTrace judged %s scenarios, driver ran %d" % (v["fired"].get("scenarios"), len(scen)))
    return v, scen


def timeout_system_scenarios(W):
    res = []
    long = {"mode": "honest", "rt": True, "expiresIn": 100000, "idLife": 100000}
    k = 0
    for st in ("memory", "redis"):
        for (a, i) in [(0, 0), (300, 0), (0, 100), (300, 100)]:
            for pattern in ("idleThenLate", "activeUntilAbs", "inside", "refreshThenLate"):
                steps = [{"op": "browse", "b": "b1", "f": "f1", "url": 1, "ans": long}]
                app = {"op": "check", "b": "b1", "f": "f1", "kind": "app", "cookie": "sid:1", "url": 1, "ans": long}
                if pattern == "idleThenLate":
                    steps += [{"op": "tick", "d": 50}, dict(app), {"op": "tick", "d": 120}, dict(app), {"op": "tick", "d": 400}, dict(app)]
                elif pattern == "refreshThenLate":
                    # short-lived tokens: a refresh inside the absolute window must not move the window
                    short = {"mode": "honest", "rt": True, "rotate": True, "expiresIn": 90, "idLife": 90}
                    steps = [{"op": "browse", "b": "b1", "f": "f1", "url": 1, "ans": short}]
                    app = {"op": "check", "b": "b1", "f": "f1", "kind": "app", "cookie": "sid:1", "url": 1, "ans": short}
                    steps += [{"op": "tick", "d": 95}, dict(app), {"op": "tick", "d": 95}, dict(app), {"op": "tick", "d": 95}, dict(app), {"op": "tick", "d": 60}, dict(app)]
                elif pattern == "activeUntilAbs":
                    for _ in range(7):
                        steps += [{"op": "tick", "d": 60}, dict(app)]
                else:
                    steps += [{"op": "tick", "d": 40}, dict(app), {"op": "tick", "d": 40}, dict(app), {"op": "tick", "d": 40}, dict(app)]
                res.append({"id": "c10sys/%s/a%d-i%d/%s" % (st, a, i, pattern), "cfg": {"filters": [dict(F1, store=st, abs=a, idle=i)]}, "steps": steps})
                k += 1
    # a crowded service: 1100 other sessions are created while a logged-in user is inside the limits; and a session used every 90 s for
    # more than a day under an idle-only limit (no absolute limit configured means none)
    for st in ("memory", "redis"):
        for (a, i) in [(0, 100), (300, 0), (300, 100), (0, 0)]:
            app_ = {"op": "check", "b": "b1", "f": "f1", "kind": "app", "cookie": "sid:1", "url": 1, "ans": long}
            steps = [{"op": "browse", "b": "b1", "f": "f1", "url": 1, "ans": long}, {"op": "tick", "d": 20}, dict(app_),
                     {"op": "flood", "f": "f1", "d": 1100, "ans": long}, dict(app_), {"op": "tick", "d": 30}, dict(app_)]
            res.append({"id": "c10sys/%s/a%d-i%d/crowded" % (st, a, i), "cfg": {"filters": [dict(F1, store=st, abs=a, idle=i)]}, "steps": steps})
        steps = [{"op": "browse", "b": "b1", "f": "f1", "url": 1, "ans": long}]
        for _ in range(1000):
            steps += [{"op": "tick", "d": 90}, {"op": "check", "b": "b1", "f": "f1", "kind": "app", "cookie": "sid:1", "url": 1, "ans": long}]
        res.append({"id": "c10sys/%s/a0-i100/usedForMoreThanADay" % st, "cfg": {"filters": [dict(F1, store=st, abs=0, idle=100)]}, "steps": steps})
    # the login itself takes longer than the limits allow (the user sits at the provider's page), with and without a Redis
    # command of the redirect's store call failing: a login state that was handed out is bound by the timeouts too
    for st in ("memory", "redis"):
        for (a, i) in [(300, 0), (0, 100), (300, 100)]:
            for fault in ((None,) if st == "memory" else (None, "cmd1", "cmd2", "cmd3", "cmd4", "cmd5")):
                first = {"op": "check", "b": "b1", "f": "f1", "kind": "app", "cookie": "none", "url": 1, "ans": long}
                if fault:
                    first["dirs"] = {"0": {"fault": fault}}
                steps = [first, {"op": "tick", "d": 450}, {"op": "authz", "b": "b1", "f": "f1"},
                         {"op": "check", "b": "b1", "f": "f1", "kind": "callback", "cookie": "jar", "st": "jar", "code": "jar", "qshape": "ok", "ans": long},
                         {"op": "check", "b": "b1", "f": "f1", "kind": "app", "cookie": "jar", "url": 1, "ans": long}]
                res.append({"id": "c10sys/%s/a%d-i%d/slowLogin%s" % (st, a, i, "/" + fault if fault else ""), "cfg": {"filters": [dict(F1, store=st, abs=a, idle=i)]}, "steps": steps})
    return res


def memstore_design(W):
    """MemStore.tla: the in-memory store at lock granularity. TLC explores every interleaving of the critical sections of
    every choice of three operations from three initial sessions: as coded (`set` holds the lock throughout) every outcome is
    serializable; with the lock released around the setter it is not (the invariant discriminates). The family of initial
    states of that model is then handed to the real store as concurrent histories (the caller runs them through LinTrace)."""
    cfg = "SPECIFICATION Spec\nCONSTANTS\n  SetHoldsLock = %s\n  N = 3\nINVARIANTS Serializable Terminating\nCHECK_DEADLOCK FALSE\n"
    out, viol = W.tlc_exhaustive("MemStore", cfg % "TRUE", "memstore-design", workers=4, timeout=1200)
    if viol:
        raise Infra("MemStore (set holds the lock, as coded) violates %s: the specification is wrong" % viol)
    m = re.search(r"Finished computing initial states: (\d+) distinct state", out)
    ninit = int(m.group(1)) if m else -1
    out2, viol2 = W.tlc_exhaustive("MemStore", cfg % "FALSE", "memstore-design-split-set", workers=4, timeout=1200, expect_violation=True)
    if "Serializable" not in (viol2 or []):
        raise Infra("MemStore with the lock released around the setter is expected to violate Serializable; TLC reports %s" % viol2)
    ops_ = ["SetTok", "SetAuth", "GetAuth", "GetTok", "ClearAuth", "Remove"]       # Ops of MemStore.tla
    starts = {"none": [], "auth": [{"op": "SetAuth", "sid": "s1", "v": 4, "thr": 0}], "tok": [{"op": "SetTok", "sid": "s1", "v": 4, "thr": 0}]}   # Starts of MemStore.tla
    fam = []
    for sn, pre in starts.items():
        for a in ops_:
            for b in ops_:
                for c in ops_:
                    ops = [{"op": o, "sid": "s1", "v": (t if o.startswith("Set") else 0), "thr": t} for t, o in ((1, a), (2, b), (3, c))]
                    fam.append({"id": "memstore/%s/%s-%s-%s" % (sn, a, b, c), "store": "memory", "abs": 0, "idle": 0, "conc": True, "pre": pre, "ops": ops,
                                "post": [{"op": "GetTok", "sid": "s1", "v": 0, "thr": 0}, {"op": "GetAuth", "sid": "s1", "v": 0, "thr": 0}]})   # the final state s of the model
    if ninit != len(fam):
        raise Infra("MemStore.tla has %d initial states, the history family derived from it %d: the two have drifted apart" % (ninit, len(fam)))
    return fam


def linearizability(W, n, given=None, name="lin"):
    """Concurrent histories of the in-memory store (3 goroutines x 3 calls, the clock hook widens race windows), judged by LinTrace.tla."""
    rnd = random.Random(W.seed * 7877 + 1)
    scen = [dict(g, id="%s#%d" % (g["id"], i)) for i, g in enumerate(given or [])]
    n = n if not given else 0
    for k in range(n):
        ops = []
        for thr in range(3):
            for j in range(3):
                op = rnd.choice(["SetTok", "SetAuth", "SetAuth", "GetTok", "GetAuth", "GetAuth", "ClearAuth", "Remove"])
                ops.append({"op": op, "sid": rnd.choice(["s1", "s1", "s1", "s2"]), "v": rnd.randint(1, 3) if op.startswith("Set") else 0, "thr": thr})
        scen.append({"id": "lin/%d" % k, "store": "memory", "abs": 0, "idle": 0, "conc": True, "ops": ops})
    trace = W.drive("TestStore", scen, name, env_extra={"VERIF_CLOCK_JITTER": "1"})
    outf = W.path(name + ".verdict.json")
    cfg = ('SPECIFICATION Spec\nCONSTANTS\n  TraceFile = "%s"\n  OutFile = "%s"\nCONSTRAINT Mark\nPOSTCONDITION Post\nCHECK_DEADLOCK FALSE\n' % (trace, outf))
    # InitMark must run before the search: make it part of Init through an ASSUME-free trick (evaluated once as a constant-level operator)
    out, gen, dist, viol, d = W.tlc("LinTrace", cfg.replace("SPECIFICATION Spec", "INIT InitL\nNEXT Next"), name, workers=1, timeout=1800,
                                    jvm=["-Dtlc2.tool.queue.IStateQueue=StateDeque"])
    if not os.path.exists(outf):
        raise Infra("LinTrace produced no verdict:\n" + out[-2000:])
    r = json.load(open(outf))
    W.tlc_states += dist
    W.tlc_transitions += gen
    n = len(scen)
    v = {"viol": [], "fired": {"linearizabilityHistories": n}, "drift": [], "index": {s_["id"]: s_ for s_ in scen}}
    if r["consumed"] < r["len"]:
        # find the history in which the search got stuck
        sc_id, line = "?", 0
        with open(trace) as fh:
            for i, ln in enumerate(fh, 1):
                e = json.loads(ln)
                if e.get("ev") == "sreset":
                    if i > r["consumed"] + 1:
                        break
                    sc_id = e["scenario"]
        v["viol"].append({"p": "C12", "m": "Linearizable", "cause": "memory-store-history-not-linearizable", "sc": sc_id, "n": r["consumed"], "at": r["consumed"]})
    log("[trace] %s: %d concurrent histories (%d events) searched for a linearization by LinTrace (%d states); %s" % (
        name, n, r["len"], dist, "all linearizable" if r["consumed"] >= r["len"] else "stuck at line %d" % r["consumed"]))
    return v


def lin_expired(W, n, given=None):
    """Concurrent histories of the in-memory store WITH session limits: a preamble writes sessions and lets them time out,
    then several goroutines are the first to look at them - at the same time. Run in the race-detector build of the
    harness: an unsynchronised access inside a store operation (or the runtime's abort on concurrent map access) means the
    operation is not atomic; the results are judged by LinTrace.tla like every other concurrent history."""
    rnd = random.Random(W.seed * 104729 + 11)
    scen = [dict(g, id="%s#%d" % (g["id"], i)) for i, g in enumerate(given or [])]
    for k in range(0 if given else n):
        a, i = rnd.choice([(0, 5), (7, 0), (7, 5), (0, 0)])
        pre = []
        for sid in ("s1", "s2"):
            for op in rnd.sample(["SetTok", "SetAuth"], rnd.randint(1, 2)):
                pre.append({"op": op, "sid": sid, "v": rnd.randint(1, 3)})
        if rnd.random() < 0.5:
            pre.append({"op": "flood", "sid": "s1", "v": rnd.choice([20, 200])})
        if rnd.random() < 0.8:
            pre.append({"op": "tick", "v": rnd.choice([8, 9, 30])})
        ops = []
        sweeper = k % 3 == 0
        if sweeper:
            # the store's own clean-up as a concurrent actor: sessions within their limits, many of them, swept while others are removed and read
            a, i = rnd.choice([(70, 50), (70, 0), (0, 50)])
            pre = [p_ for p_ in pre if p_["op"] not in ("tick", "flood")] + [{"op": "flood", "sid": "s1", "v": 300}]
            ops += [{"op": "sweep", "sid": "s1", "v": 0, "thr": 9} for _ in range(3)]
        for thr in range(3 if sweeper else 4):
            sid = rnd.choice(["s1", "s2"])
            for j in range(3):
                op = rnd.choice(["GetTok", "GetTok", "GetAuth", "GetAuth", "GetAuth", "SetTok", "SetAuth", "ClearAuth", "Remove"])
                if sweeper:
                    op = ("Remove", "GetTok", "GetAuth")[j] if thr < 2 else op
                ops.append({"op": op, "sid": sid if sweeper and thr < 2 else rnd.choice(["s1", "s1", "s2"]), "v": rnd.randint(1, 3) if op.startswith("Set") else 0, "thr": thr + 1})
        scen.append({"id": "linx/%d" % k, "store": "memory", "abs": a, "idle": i, "conc": True, "pre": pre, "ops": ops})
    W.build(race=True)
    trace, rc, out = W.drive("TestStore", scen, "linx", env_extra={"VERIF_CLOCK_JITTER": "1", "VERIF_ANNOUNCE": "1"}, race=True)
    v = {"viol": [], "fired": {"concurrentHistoriesWithTimedOutSessions": len(scen)}, "drift": [], "index": {s_["id"]: s_ for s_ in scen}}
    # what the race detector / the runtime said, attributed to the scenario that was running
    cur, races, fatal = "?", {}, None
    lines = out.splitlines()
    for j, ln in enumerate(lines):
        if ln.startswith("VERIF-SCENARIO "):
            cur = ln.split(" ", 1)[1].strip()
        elif ln.startswith("WARNING: DATA RACE"):
            block = []
            for l2 in lines[j + 1:j + 120]:
                if l2.startswith("=================="):
                    break
                block.append(l2)
            in_store = [b for b in block if "/internal/oidc/" in b and "zz_verif" not in b]
            if in_store:
                races.setdefault(cur, in_store[0].strip())
            else:
                raise Infra("the race detector reports a race outside the store (the harness itself?):\n" + "\n".join(block[:40]))
        elif ln.startswith("fatal error: concurrent map"):
            fatal = (cur, ln.strip())
    for sc_id, where in sorted(races.items()):
        v["viol"].append({"p": "C12", "m": "AtomicOps", "cause": "memory-store-operation-races-with-another", "sc": sc_id, "n": 0, "at": 0, "where": where})
    if fatal:
        v["viol"].append({"p": "C12", "m": "AtomicOps", "cause": "memory-store-concurrent-map-access-aborts-the-process", "sc": fatal[0], "n": 0, "at": 0, "where": fatal[1]})
    if fatal:
        log("[drive] linx: the process was aborted by the runtime: %s in %s" % (fatal[1], fatal[0]))
        return v
    if rc != 0 and not races:
        raise Infra("race-build driver failed (exit %d):\n%s" % (rc, out[-3000:]))
    if not os.path.exists(trace):
        return v
    outf = W.path("linx.verdict.json")
    cfg = ('INIT InitL\nNEXT Next\nCONSTANTS\n  TraceFile = "%s"\n  OutFile = "%s"\nCONSTRAINT Mark\nPOSTCONDITION Post\nCHECK_DEADLOCK FALSE\n' % (trace, outf))
    tout, gen, dist, viol, d = W.tlc("LinTrace", cfg, "linx", workers=1, timeout=1800, jvm=["-Dtlc2.tool.queue.IStateQueue=StateDeque"])
    if not os.path.exists(outf):
        raise Infra("LinTrace produced no verdict:\n" + tout[-2000:])
    r = json.load(open(outf))
    W.tlc_states += dist
    W.tlc_transitions += gen
    if r["consumed"] < r["len"]:
        sc_id = "?"
        with open(trace) as fh:
            for i, ln in enumerate(fh, 1):
                e = json.loads(ln)
                if e.get("ev") == "sreset":
                    if i > r["consumed"] + 1:
                        break
                    sc_id = e["scenario"]
        v["viol"].append({"p": "C12", "m": "Linearizable", "cause": "memory-store-history-with-timed-out-sessions-not-linearizable", "sc": sc_id, "n": r["consumed"], "at": r["consumed"]})
    log("[trace] linx: %d concurrent histories over timed-out sessions (%d events; race detector on: %d racing operations) searched for a linearization by LinTrace (%d states); %s" % (
        len(scen), r["len"], len(races), dist, "all linearizable" if r["consumed"] >= r["len"] else "stuck at line %d" % r["consumed"]))
    return v


# ---------------------------------------------------------------------------------------------
# C07 / C08: dispatch functions (DispatchOps / DispatchGen / DispatchTrace)


def dispatch_gen(W, fam):
    cfg = 'SPECIFICATION Spec\nCONSTANTS\n  Family = "%s"\n  Tier = "%s"\nINVARIANT Emit\nCHECK_DEADLOCK FALSE\n' % (fam, W.tier)
    out, viol = W.tlc_exhaustive("DispatchGen", cfg, "gen-" + fam, workers=8, timeout=3000)
    if viol:
        raise Infra("DispatchGen: %s violated -- the specification's own invariance theorem fails" % viol)
    cases = W.scenarios_from(out)
    for i, c in enumerate(cases):
        c["id"] = "%s/%d" % (fam.lower(), i)
        c["kind"] = fam.lower()
    log("[gen] %s: %d cases enumerated by TLC" % (fam, len(cases)))
    return cases


def all_targets():
    al = ["/", "a", ".", "?", "#"]
    ts = [[]] + [[x] for x in al] + [[x, y] for x in al for y in al] + [[x, y, z] for x in al for y in al for z in al]
    ts += [["/", "a", x, y] for x in al for y in al]
    # the same targets with the letter in upper case: matching is case-sensitive (the rules say "/a", the request says "/A")
    ts += [[("A" if c == "a" else c) for c in t] for t in ts if "a" in t and len(t) <= 3]
    return ts


def dispatch_pipeline(prop, W, cases, replay=None, assumptions=()):
    if replay:
        cases = [json.loads(l) for l in open(os.path.join(replay, "scenario.ndjson")) if l.strip()]
    index = {c["id"]: c for c in cases}
    tf = W.path("targets.json")
    with open(tf, "w") as fh:
        json.dump(all_targets(), fh)
    trace = W.drive("TestDispatch", cases, "dispatch", env_extra={"VERIF_TARGETS": tf})
    v = W.validate(trace, "dispatch", module="DispatchTrace")
    if v["fired"].get("scenarios", 0) != len(cases):
        raise Infra("DispatchTrace judged %s cases, driver ran %d" % (v["fired"].get("scenarios"), len(cases)))
    return judge(prop, W, [v], index, traces=len(cases), samples=[{"case": cases[min(5, len(cases) - 1)], "recorded_events": sample_events_at(trace, 3)}],
                 assumptions=list(assumptions), extra_cov={"decisions": len(cases) * (len(all_targets()) if prop == "C07" else 17)})


def sample_events_at(trace, n):
    out = []
    with open(trace) as fh:
        for i, line in enumerate(fh):
            if i >= 2 and len(out) < n:
                out.append(json.loads(line))
            if len(out) >= n:
                break
    return out


def random_rule_cases(W, n):
    rnd = random.Random(W.seed * 2654435761 % (2 ** 31))
    al = list("/ab.?#-_%")
    segs = ["/", "/api", "/api/v1", "/static/app.css", "/a.b", "/admin", "/health", "/x/../y", "/%2e%2e/", "/a//b"]

    def lit():
        if rnd.random() < 0.5:
            return list(rnd.choice(segs)[: rnd.randint(1, 12)])
        return [rnd.choice(al) for _ in range(rnd.randint(0, 5))]

    def pat():
        k = rnd.choice(["exact", "prefix", "suffix", "suffix", "prefix", "reContains", "rePrefix", "reSuffix", "reExact", "reInvalid"])
        l = lit()
        if k.startswith("re"):
            l = [c for c in l if c in "/ab-_"]
        return {"kind": k, "lit": l}
    res = []
    for i in range(n):
        rules = [{"excl": [pat() for _ in range(rnd.randint(0, 3))], "incl": [pat() for _ in range(rnd.randint(0, 2))]} for _ in range(rnd.randint(0, 3))]
        own = []
        for _ in range(40):
            base = rnd.choice(segs) if rnd.random() < 0.6 else "".join(rnd.choice(al) for _ in range(rnd.randint(0, 8)))
            r = rnd.random()
            if r < 0.35:
                base += "?" + "".join(rnd.choice(al + list(".css")) for _ in range(rnd.randint(0, 8)))
            elif r < 0.5:
                base += "#" + "".join(rnd.choice(al) for _ in range(rnd.randint(0, 5)))
            own.append(list(base))
        # every literal also appears appended after a '?' to a path (the bypass shape)
        for r_ in rules:
            for p_ in r_["excl"]:
                own.append(list("/secret?x=") + p_["lit"])
                own.append(list("/secret#") + p_["lit"])
                # hostile tails: a bad percent-escape, control bytes, repeated separators (what URL parsers choke on or split differently)
                own.append(list("/secret#%") + p_["lit"])
                own.append(list("/secret?x=\x7f") + p_["lit"])
                own.append(list("/secret?a=1?b=") + p_["lit"])
                own.append(list("/secret#a#") + p_["lit"])
                own.append(list("/secret?%zz#%") + p_["lit"])
            for p_ in r_["incl"]:
                if p_["kind"] in ("exact", "prefix", "suffix") and p_["lit"] and p_["lit"][0] == "/":
                    own.append(p_["lit"] + list("#%"))
                    own.append(p_["lit"] + list("?x=\t"))
                    own.append(p_["lit"] + list("?a?b"))
        res.append({"id": "c07/random/%d" % i, "kind": "c07", "rules": rules, "own": own})
    return res


def c07(W, replay=None):
    W.build()
    cases = [] if replay else dispatch_gen(W, "C07") + random_rule_cases(W, 20000 if W.tier == "thorough" else 1500)
    return dispatch_pipeline("C07", W, cases, replay, ["the verdict is observed through ExtAuthZFilter.Check with a single always-deny mock filter (OK <=> not triggered)",
                                                       "regular expressions are covered for literal fragments with anchors and for an expression that does not compile"])


def random_chain_cases(W, n):
    """Long chain lists (up to 14 chains - deployments with one chain per tenant), mixed criteria on two headers, filter lists with an
    OIDC filter whose provider cannot be discovered: judged by the same DispatchOps!Judge."""
    rnd = random.Random(W.seed * 40503 + 17)
    vals = [["a"], ["a", "b"], ["b"], ["a", "b", "c"], ["b", ",", "a"], [" ", "a"]]
    res = []
    for k in range(n):
        chains = []
        for _ in range(rnd.choice([1, 2, 3, 5, 8, 9, 11, 14])):
            r = rnd.random()
            if r < 0.15:
                crit = {"crit": "none", "hdr": "x", "hdrLower": "x", "val": []}
            else:
                hdr = rnd.choice(["x-t", "x-t", "X-T", "x-other", "X-Other"])
                crit = {"crit": rnd.choice(["eq", "eq", "prefix"]), "hdr": hdr, "hdrLower": hdr.lower(), "val": rnd.choice(vals)}
            kinds = [rnd.choice(["allow", "deny", "allow"]) for _ in range(rnd.randint(0, 2))]
            special = rnd.choice(["oidc", "broken", None, None])
            if special:
                kinds.insert(rnd.randint(0, len(kinds)), special)
            if not kinds:
                kinds = ["allow"]
            chains.append(dict(crit, filters=kinds))
        res.append({"id": "c08/random/%d" % k, "kind": "c08", "chains": chains, "allowUnmatched": rnd.random() < 0.5, "dupNames": rnd.random() < 0.2})
    return res


def c08(W, replay=None):
    W.build()
    cases = [] if replay else dispatch_gen(W, "C08")
    # the same chain lists once more with one name for all chains (names need not be unique), each judged on the same filter object
    # for all header maps in a row, so that anything remembered per chain name or per earlier request shows
    dups = []
    for c in cases:
        if len(c.get("chains", [])) >= 2:
            d = dict(c, id=c["id"] + "/dupnames", dupNames=True)
            dups.append(d)
    cases += sample(W, dups, 20000 if W.tier == "thorough" else 800)
    if not replay:
        cases += random_chain_cases(W, 4000 if W.tier == "thorough" else 300)
    return dispatch_pipeline("C08", W, cases, replay, ["an OIDC filter without cookie serves as the distinguishable denial; whether a filter was reached is observed through its session-store lookup",
                                                       "header names in requests are lower-case as Envoy delivers them"])


# ---------------------------------------------------------------------------------------------
# C17 configuration loading (ConfigOps / ConfigGen / ConfigTrace)


def fixture_mutations(W, n):
    """Mutations of the shipped test fixtures: only 'never panics' is judged for these (their abstract document is unknown)."""
    import glob as _g
    rnd = random.Random(W.seed * 911 + 5)
    res = []
    files = sorted(_g.glob(vlib.REPO + "/internal/testdata/*.json")) + sorted(_g.glob(vlib.REPO + "/internal/k8s/testdata/*.json"))
    docs = []
    for f in files:
        try:
            docs.append((os.path.basename(f), json.load(open(f))))
        except Exception:
            pass

    def paths(o, pre=()):
        yield pre
        if isinstance(o, dict):
            for k, v in o.items():
                yield from paths(v, pre + (k,))
        elif isinstance(o, list):
            for i, v in enumerate(o):
                yield from paths(v, pre + (i,))

    def mutate(doc):
        d = json.loads(json.dumps(doc))
        ps = [p for p in paths(d) if p]
        p = rnd.choice(ps)
        parent = d
        for k in p[:-1]:
            parent = parent[k]
        r = rnd.random()
        if r < 0.25:
            del parent[p[-1]]
        elif r < 0.45:
            parent[p[-1]] = rnd.choice([{}, [], "", None, 0, True, "x", {"oidc": {}}, [{}], {"header": ""}, -1, 1e30])
        elif r < 0.6 and isinstance(parent[p[-1]], list):
            parent[p[-1]] = parent[p[-1]] + parent[p[-1]]
        elif r < 0.75 and isinstance(parent[p[-1]], dict):
            parent[p[-1]] = {}
        elif r < 0.9 and isinstance(parent[p[-1]], str):
            parent[p[-1]] = rnd.choice(["/", "", ":", "http://[::1", "a:b", parent[p[-1]] + "/", "tcp://x:1"])
        else:
            parent[p[-1]] = [parent[p[-1]]]
        return d
    for i in range(n):
        name, doc = rnd.choice(docs)
        m = doc
        for _ in range(rnd.randint(1, 3)):
            try:
                m = mutate(m)
            except Exception:
                pass
        res.append({"id": "fixture/%s/%d" % (name, i), "raw": json.dumps(m)})
    return res


def c17(W, replay=None):
    W.build()
    cases = []
    if not replay:
        cfg = 'SPECIFICATION Spec\nCONSTANTS\n  Tier = "%s"\nINVARIANT Emit\nCHECK_DEADLOCK FALSE\n' % W.tier
        out, viol = W.tlc_exhaustive("ConfigGen", cfg, "gen-C17", workers=4, timeout=3000)
        cases = W.scenarios_from(out)
        for i, c in enumerate(cases):
            c["id"] = "c17/%d" % i
        log("[gen] C17: %d documents enumerated by TLC" % len(cases))
        cases += fixture_mutations(W, 5000 if W.tier == "thorough" else 600)
        # the same documents with trigger rules in them: complete ones, a path match without any match type (well-formed: the oneof is
        # optional), a regular expression that does not compile. Loading may accept or reject these; it never panics, and what it accepts
        # is judged as before
        rules = {"ok": [{"excluded_paths": [{"exact": "/healthz"}, {"suffix": ".css"}], "included_paths": [{"prefix": "/"}]}],
                 "typeless": [{"excluded_paths": [{}]}, {"included_paths": [{}, {"regex": "^/a"}]}],
                 "badRegex": [{"excluded_paths": [{"regex": "("}]}], "empty": [{}]}
        base = [c for c in cases if c["id"].startswith("c17/") and "json" in c and "doc" in c]
        for k, c in enumerate(sample(W, base, 2000 if W.tier == "thorough" else 240)):
            name = list(rules)[k % len(rules)]
            v = json.loads(json.dumps(c))
            v["id"] = c["id"] + "/rules-" + name
            v["json"]["trigger_rules"] = rules[name]
            cases.append(v)
    else:
        cases = [json.loads(l) for l in open(os.path.join(replay, "scenario.ndjson")) if l.strip()]
    index = {c["id"]: c for c in cases}
    trace = W.drive("TestConfig", cases, "config")
    v = W.validate(trace, "config", module="ConfigTrace")
    if v["fired"].get("scenarios", 0) != len(cases):
        raise Infra("ConfigTrace judged %s documents, driver loaded %d" % (v["fired"].get("scenarios"), len(cases)))
    return judge("C17", W, [v], index, traces=len(cases), samples=[{"case": cases[0], "recorded_events": sample_events_at(trace, 1)}],
                 assumptions=["the loader may reject more than the statement requires; that is never an alarm",
                              "mutated fixtures are judged for 'never panics' only (their abstract document is not known to the specification)"])


# ---------------------------------------------------------------------------------------------
# C19 Kubernetes secret propagation (SecretSync / SecretTrace)


def c19(W, replay=None):
    W.build()
    scen = []
    if not replay:
        thorough = W.tier == "thorough"
        for rc in (1, 2, 3, 4, 5):
            cfg = cfg_text("Spec", dict(RefCase=rc, Names='{"n1", "n2"}' if not thorough or rc > 2 else '{"n1", "n2", "n3"}', Vals='{"v1", "v2"}', MaxLen=10, Export="TRUE", Local="FALSE"),
                           ["OnlyReferencing"], view="view", extra="ACTION_CONSTRAINT PrintTransition\n")
            out, viol = W.tlc_exhaustive("SecretSync", cfg, "secretsync-%d" % rc, workers=1, timeout=3000)
            if viol:
                raise Infra("SecretSync violates %s" % viol)
            hs = sample(W, W.scenarios_from(out), 6000 if thorough else (700 if rc <= 3 else 150))
            scen += [{"id": "c19/refs%d/%d" % (rc, i), "refs": h["refs"], "events": h["events"]} for i, h in enumerate(hs)]
            # random walks of the same specification: full histories with no-op steps in them
            cfg = cfg_text("Spec", dict(RefCase=rc, Names='{"n1", "n2"}', Vals='{"v1", "v2"}', MaxLen=14, Export="TRUE", Local="FALSE"), ["PrintFull"])
            out, gen, dist, viol, d = W.tlc("SecretSync", cfg, "secretsync-walk-%d" % rc, workers=1, simulate="num=%d" % (2000 if thorough else 250),
                                            extra=["-depth", "14", "-seed", str(W.seed + rc)], timeout=900)
            ws = sample(W, W.scenarios_from(out), 3000 if thorough else 300)
            scen += [{"id": "c19/walk%d/%d" % (rc, i), "refs": h["refs"], "events": h["events"]} for i, h in enumerate(ws)]
        # every history of one Secret up to a length (no VIEW: histories, not states): what an implementation remembers on its own
        # (an index, a digest of what it processed) shows only after a particular history
        for L in ((4, 5, 6, 7) if thorough else (4, 5, 6)):
            cfg = cfg_text("Spec", dict(RefCase=1, Names='{"n1"}', Vals='{"v1", "v2"}', MaxLen=L, Export="TRUE", Local="TRUE"), ["PrintFull"])
            out, viol = W.tlc_exhaustive("SecretSync", cfg, "secretsync-all-%d" % L, workers=4, timeout=3000)
            hs = W.scenarios_from(out)
            if L >= 6 and not thorough:
                hs = sample(W, hs, 6000)
            scen += [{"id": "c19/all%d/%d" % (L, i), "refs": h["refs"], "events": h["events"]} for i, h in enumerate(hs)]
        # one OAuth client registered for several chains: the filters share the client id as well as the Secret
        scen += [dict(s_, id=s_["id"].replace("c19/", "c19/sameClient/"), sameClient=True) for s_ in scen if s_["id"].startswith(("c19/refs1/", "c19/refs3/"))][:400]
        # a transient API-server error at the first read of every reconcile (a reconcile that errs is retried, as the work queue does);
        # and Secret values that are themselves valid base64 text (what providers issue looks like that; Secret.Data is raw bytes)
        b64 = {"v1": "Zk3vQ9pLw2Xs8RtY6uBn4MjH7cVd1GfA", "v2": "QUJDREVGR0hJSktMTU5PUA=="}
        extra = []
        for s_ in [x for x in scen if x["id"].startswith(("c19/refs1/", "c19/refs2/", "c19/all5/"))][:500]:
            extra.append(dict(s_, id=s_["id"].replace("c19/", "c19/faultyGets/"), faultyGets=True))
            extra.append(dict(s_, id=s_["id"].replace("c19/", "c19/b64values/"), events=[dict(e, v=b64.get(e.get("v"), e.get("v"))) for e in s_["events"]]))
            # values with blanks around and inside them (Secret.Data is raw bytes: the value is what is there, byte for byte)
            raw = {"v1": " lead and trail \n", "v2": "tab\tinside, newline at the end\n"}
            extra.append(dict(s_, id=s_["id"].replace("c19/", "c19/rawvalues/"), events=[dict(e, v=raw.get(e.get("v"), e.get("v"))) for e in s_["events"]]))
        scen += extra
        # start-up: cross-namespace references are refused, a reference naming the controller's own namespace is not
        ev = [{"op": "set", "name": "n1", "v": "v1"}, {"op": "reconcile", "name": "n1", "v": ""}]
        scen += [{"id": "c19/startup/cross-ns-first", "refs": ["n1", "lit", "n2"], "refNs": ["other", "", ""], "crossNs": True, "events": ev},
                 {"id": "c19/startup/cross-ns-last", "refs": ["n1", "lit", "n2"], "refNs": ["", "", "other"], "crossNs": True, "events": ev},
                 {"id": "c19/startup/cross-ns-after-local-same-name", "refs": ["n1", "n1", "lit"], "refNs": ["", "other", ""], "crossNs": True, "events": ev},
                 {"id": "c19/startup/cross-ns-before-local-same-name", "refs": ["n1", "n1", "lit"], "refNs": ["other", "", ""], "crossNs": True, "events": ev},
                 {"id": "c19/startup/own-ns-explicit", "refs": ["n1", "n1", "lit"], "refNs": ["own", "", ""], "crossNs": False, "events": ev + [{"op": "set", "name": "n1", "v": "v2"}, {"op": "reconcile", "name": "n1", "v": ""}]}]
    else:
        scen = [json.loads(l) for l in open(os.path.join(replay, "scenario.ndjson")) if l.strip()]
    index = {s_["id"]: s_ for s_ in scen}
    vs = []
    sec = [s_ for s_ in scen if "cfg" not in s_]
    if sec:
        trace = W.drive("TestSecret", sec, "secret")
        v = W.validate(trace, "secret", module="SecretTrace")
        if v["fired"].get("scenarios", 0) != len(sec):
            raise Infra("SecretTrace judged %s scenarios, driver ran %d" % (v["fired"].get("scenarios"), len(sec)))
        vs.append(v)
    # at the token endpoint: the assembled filter with the real controller; the provider sees which secret every token request carries
    rot = [s_ for s_ in scen if "cfg" in s_] if replay else secret_rotation_family(W)
    if rot:
        index.update({s_["id"]: s_ for s_ in rot})
        tr2 = W.drive("TestSys", rot, "sys")
        vs.append(W.validate(tr2, "sys"))
        if not sec:
            trace = tr2
    return judge("C19", W, vs, index, traces=len(scen) + (0 if replay else len(rot)), samples=[{"scenario": scen[0], "recorded_events": sample_events_at(trace, 4)}],
                 assumptions=["controller-runtime's fake client stands in for the API server; a Secret is kept in 'deleting' state by a finalizer",
                              "the secret a token-endpoint request would use is observed as OIDCConfig.GetClientSecret() of the very configuration objects the handlers read at request time"])


# ---------------------------------------------------------------------------------------------
# C20 TLS trust (TLSTrust / TLSTrace)


def c20(W, replay=None):
    W.build()
    scen = []
    if not replay:
        thorough = W.tier == "thorough"
        base = dict(MaxLen=7, MaxCfgs=3 if thorough else 2, Export="FALSE")
        # design level: one watcher per file (as coded) breaks Rotation, one watcher per configuration keeps it
        out, viol = W.tlc_exhaustive("TLSTrust", cfg_text("Spec", dict(base, WatcherPerFile="FALSE"), ["SkipOnlyWithoutCA", "Rotation", "OneWatcherEach"], view="view"),
                                     "tls-design-per-config", workers=8, timeout=3000)
        if viol:
            raise Infra("TLSTrust with one watcher per configuration violates %s" % viol)
        out, viol = W.tlc_exhaustive("TLSTrust", cfg_text("Spec", dict(base, WatcherPerFile="TRUE"), ["Rotation"], view="view"),
                                     "tls-design-per-file", workers=8, timeout=3000, expect_violation=True)
        log("[design] with one watcher per file (superseding) the model %s Rotation" % ("VIOLATES" if viol else "satisfies"))
        out, viol = W.tlc_exhaustive("TLSTrust", cfg_text("Spec", dict(MaxLen=7, MaxCfgs=2, WatcherPerFile="FALSE", Export="TRUE"), [], view="view",
                                                          extra="ACTION_CONSTRAINT PrintTransition\n"), "tls-transitions", workers=1, timeout=3000)
        hs = sample(W, W.scenarios_from(out), 1500 if thorough else 110)
        scen += [{"id": "c20/t/%d" % i, "events": h} for i, h in enumerate(hs)]
        cfg = cfg_text("Spec", dict(MaxLen=9, MaxCfgs=3, WatcherPerFile="FALSE", Export="TRUE"), ["PrintFull"])
        out, gen, dist, viol, d = W.tlc("TLSTrust", cfg, "tls-walks", workers=1, simulate="num=%d" % (1500 if thorough else 200),
                                        extra=["-depth", "9", "-seed", str(W.seed)], timeout=900)
        ws = sample(W, W.scenarios_from(out), 800 if thorough else 40)
        scen += [{"id": "c20/w/%d" % i, "events": h} for i, h in enumerate(ws)]
        # every ordered pair of settings on one CA source and one interval (no sampling): which settings share a pool entry
        # and which must not is decided by the skip form alone there
        k = 0
        for ca in ("none", "inline1", "file"):
            for interval in (0, 1):
                for s1 in ("absent", "true", "strTrue", "false", "strFalse"):
                    for s2 in ("absent", "true", "strTrue", "false", "strFalse"):
                        ev = [{"op": "start", "ca": "", "skip": "", "interval": 0, "content": "ca1"},
                              {"op": "load", "ca": ca, "skip": s1, "interval": interval, "content": ""},
                              {"op": "load", "ca": ca, "skip": s2, "interval": interval, "content": ""}]
                        scen.append({"id": "c20/pair/%d" % k, "events": ev})
                        k += 1
    else:
        scen = [json.loads(l) for l in open(os.path.join(replay, "scenario.ndjson")) if l.strip()]
    index = {s_["id"]: s_ for s_ in scen}
    # "the system roots" of the driver process: a file that the driver itself fills with an authority of its own before it builds its first pool
    trace = W.drive("TestTLS", scen, "tls", timeout=3000, env_extra={"SSL_CERT_FILE": W.path("verif-sysroots.pem"), "SSL_CERT_DIR": W.path("no-such-dir")})
    v = W.validate(trace, "tls", module="TLSTrace")
    if v["fired"].get("scenarios", 0) != len(scen):
        raise Infra("TLSTrace judged %s scenarios, driver ran %d" % (v["fired"].get("scenarios"), len(scen)))
    return judge("C20", W, [v], index, traces=len(scen), samples=[{"scenario": scen[0], "recorded_events": sample_events_at(trace, 3)}],
                 assumptions=["real handshakes through the HTTP client the service builds (NewHTTPClient) against loopback servers certified by CA1 / CA2 and by an authority that is the driver process' only system root (SSL_CERT_FILE)",
                              "refresh interval 30 ms of real time; after a rewrite the driver polls up to 200 intervals for the observation to change before judging"])


# ---------------------------------------------------------------------------------------------
# C06 unpredictability (Entropy / EntropyTrace + freshness monitors on system traces)


def c06(W, replay=None):
    W.build()
    vs, index, traces = [], {}, 0
    if not replay:
        # design level: Secrecy holds exactly for the Csprng class
        for cls in ("Csprng", "TimeSeededPrng", "SharedStream", "Correlated", "FallbackPrng", "FixedKeyStream"):
            out, viol = W.tlc_exhaustive("Entropy", cfg_text("Spec", dict(GenClass='"%s"' % cls, MaxLogins=3), ["Secrecy"]), "entropy-" + cls, workers=2,
                                         expect_violation=(cls != "Csprng"))
            if (cls == "Csprng") == bool(viol):
                raise Infra("Entropy: Secrecy %s for generator class %s -- the specification is wrong" % ("violated" if viol else "holds", cls))
        # the executable witnesses of the derivation actions against the real generator
        trace = W.path("entropy.trace.ndjson")
        tmp = W.path("tmp-entropy")
        os.makedirs(tmp, exist_ok=True)
        env = dict(os.environ, VERIF_OUT=trace, VERIF_TIER=W.tier, VERIF_SELF=W.bin)
        p = subprocess.run([W.bin, "-test.run", "^TestEntropy$", "-test.timeout", "3000s"], env=env, capture_output=True, text=True, cwd=tmp)
        if p.returncode != 0:
            raise Infra("entropy witnesses failed to run:\n" + p.stdout[-2000:] + p.stderr[-2000:])
        v = W.validate(trace, "entropy", module="EntropyTrace")
        for k in ("DeriveFromTimeSeed", "DeriveFromPublic", "DeriveFromSibling", "DeriveWhenSourceSlow", "DeriveFromEarlierRun"):
            if not v["fired"].get(k):
                raise Infra("witness for %s did not run" % k)
        vs.append(v)
        traces += v["len"]
        log("[witness] %s" % "; ".join(json.dumps(json.loads(l)) for l in open(trace))[:600])
        # handler level: the values of every login redirect are fresh (never those of an earlier login)
        scen = family(W, "C05", "quick") + attacker_family(W, 300 if W.tier == "thorough" else 60) + random_histories(W, 300 if W.tier == "thorough" else 40)
    else:
        scen = [json.loads(l) for l in open(os.path.join(replay, "scenario.ndjson")) if l.strip()]
    ids = set()
    for i, s_ in enumerate(scen):
        if s_["id"] in ids:
            s_["id"] = "%s#%d" % (s_["id"], i)
        ids.add(s_["id"])
    index.update({s_["id"]: s_ for s_ in scen})
    tr = W.drive("TestSys", scen, "sys")
    vs.append(W.validate(tr, "sys"))
    traces += len(scen)
    return judge("C06", W, vs, index, level="other", traces=traces, samples=[{"witness_log": [json.loads(l) for l in open(W.path("entropy.trace.ndjson"))] if not replay else []}],
                 extra_cov={"explanation": "TLC checks the attacker-knowledge closure of Entropy.tla (Secrecy holds only for the Csprng class); each derivation action has an executable witness run against "
                                           "the real generator built as Check builds it (seed search over the request-time window for math/rand v1, correlation/repeat/shape tests over 3000 logins, duplicate ids among "
                                           "concurrently built generators); handler-level reuse of state/nonce/challenge/session id across logins is judged by AuthMonitor on system traces. "
                                           "This detects the modelled generator classes, not every conceivable weak generator; the static call-graph clause of the property is not claimed."},
                 assumptions=["detects the modelled generator classes (time-seeded math/rand v1, shared stream, correlated/reused values, collisions), not every weak generator",
                              "the type-checked call graph to an entropy source is static analysis, outside this technique, and is not claimed"])


# ---------------------------------------------------------------------------------------------
REGISTRY = {"C01": c01, "C02": c02, "C03": c03, "C04": c04, "C05": c05, "C06": c06, "C07": c07, "C08": c08, "C09": c09, "C10": c10, "C11": c11, "C12": c12, "C13": c13, "C14": c14, "C15": c15, "C17": c17, "C18": c18, "C19": c19, "C20": c20}


def run(prop, W, replay=None):
    return REGISTRY[prop](W, replay=replay)


def setup():
    """Parse every specification and warm the Go build cache."""
    W = Work("setup", "quick", 1)
    try:
        W.build()
        for f in sorted(os.listdir(vlib.SPECS)):
            if f.endswith(".tla") and f != "SessionMapInd.tla":     # (typed for Apalache, parsed by Apalache: EXTENDS its own module)
                p = subprocess.run(["java", "-cp", vlib.JAR + ":/opt/veriftools/tla/CommunityModules-deps.jar", "tla2sany.SANY", f],
                                   cwd=vlib.SPECS, capture_output=True, text=True, timeout=120)
                if p.returncode != 0 or "error" in p.stdout.lower() and "0 error" not in p.stdout.lower():
                    log(p.stdout[-2000:])
                    return 2
        log("setup ok")
        return 0
    except Infra as e:
        log("setup failed:", e)
        return 2
    finally:
        W.cleanup()
