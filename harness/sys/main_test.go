package zzverif

import (
	"fmt"
	"os"
	"testing"
)

// TestSys runs the scenarios of $VERIF_IN against the real ExtAuthZFilter.Check and writes the trace to $VERIF_OUT.
func TestSys(t *testing.T) {
	in, out := os.Getenv("VERIF_IN"), os.Getenv("VERIF_OUT")
	if in == "" || out == "" {
		t.Skip("VERIF_IN / VERIF_OUT not set")
	}
	tmp := os.Getenv("VERIF_TMP")
	if tmp == "" {
		tmp = t.TempDir()
	}
	n, err := runFile(in, out, tmp)
	if err != nil {
		t.Fatalf("driver: %v (after %d scenarios)", err, n)
	}
	fmt.Printf("SCENARIOS-RUN %d\n", n)
}

// TestStore runs store-level operation sequences ($VERIF_IN) against the real memory / Redis stores.
func TestStore(t *testing.T) {
	in, out := os.Getenv("VERIF_IN"), os.Getenv("VERIF_OUT")
	if in == "" || out == "" {
		t.Skip("VERIF_IN / VERIF_OUT not set")
	}
	n, err := runStoreFile(in, out)
	if err != nil {
		t.Fatalf("store driver: %v (after %d scenarios)", err, n)
	}
	fmt.Printf("SCENARIOS-RUN %d\n", n)
}

// TestDispatch runs rule sets / chain lists ($VERIF_IN) through the real ExtAuthZFilter.Check.
func TestDispatch(t *testing.T) {
	in, out := os.Getenv("VERIF_IN"), os.Getenv("VERIF_OUT")
	if in == "" || out == "" {
		t.Skip("VERIF_IN / VERIF_OUT not set")
	}
	tmp := os.Getenv("VERIF_TMP")
	if tmp == "" {
		tmp = t.TempDir()
	}
	n, err := runDispatchFile(in, out, os.Getenv("VERIF_TARGETS"), tmp)
	if err != nil {
		t.Fatalf("dispatch driver: %v (after %d cases)", err, n)
	}
	fmt.Printf("SCENARIOS-RUN %d\n", n)
}

// TestConfig loads the configuration documents of $VERIF_IN through the real loader.
func TestConfig(t *testing.T) {
	in, out := os.Getenv("VERIF_IN"), os.Getenv("VERIF_OUT")
	if in == "" || out == "" {
		t.Skip("VERIF_IN / VERIF_OUT not set")
	}
	tmp := os.Getenv("VERIF_TMP")
	if tmp == "" {
		tmp = t.TempDir()
	}
	n, err := runConfigFile(in, out, tmp)
	if err != nil {
		t.Fatalf("config driver: %v (after %d cases)", err, n)
	}
	fmt.Printf("SCENARIOS-RUN %d\n", n)
}

// TestSecret replays Secret event histories ($VERIF_IN) into the real SecretController.Reconcile.
func TestSecret(t *testing.T) {
	in, out := os.Getenv("VERIF_IN"), os.Getenv("VERIF_OUT")
	if in == "" || out == "" {
		t.Skip("VERIF_IN / VERIF_OUT not set")
	}
	n, err := runSecretFile(in, out)
	if err != nil {
		t.Fatalf("secret driver: %v (after %d scenarios)", err, n)
	}
	fmt.Printf("SCENARIOS-RUN %d\n", n)
}

// TestTLS replays TLS configuration / CA rotation histories ($VERIF_IN) with real handshakes.
func TestTLS(t *testing.T) {
	in, out := os.Getenv("VERIF_IN"), os.Getenv("VERIF_OUT")
	if in == "" || out == "" {
		t.Skip("VERIF_IN / VERIF_OUT not set")
	}
	tmp := os.Getenv("VERIF_TMP")
	if tmp == "" {
		tmp = t.TempDir()
	}
	n, err := runTLSFile(in, out, tmp)
	if err != nil {
		t.Fatalf("tls driver: %v (after %d scenarios)", err, n)
	}
	fmt.Printf("SCENARIOS-RUN %d\n", n)
}

// TestEntropy runs the attack witnesses of Entropy.tla against the real generator.
func TestEntropy(t *testing.T) {
	out := os.Getenv("VERIF_OUT")
	if out == "" {
		t.Skip("VERIF_OUT not set")
	}
	if err := runEntropy(out, os.Getenv("VERIF_TIER") == "thorough"); err != nil {
		t.Fatal(err)
	}
	fmt.Println("SCENARIOS-RUN 1")
}

// TestBinary drives the binary built from ./cmd ($VERIF_BIN) over gRPC in real time.
func TestBinary(t *testing.T) {
	in, out, bin := os.Getenv("VERIF_IN"), os.Getenv("VERIF_OUT"), os.Getenv("VERIF_BIN")
	if in == "" || out == "" || bin == "" {
		t.Skip("VERIF_IN / VERIF_OUT / VERIF_BIN not set")
	}
	tmp := os.Getenv("VERIF_TMP")
	if tmp == "" {
		tmp = t.TempDir()
	}
	n, err := runBinaryFile(in, out, tmp, bin)
	if err != nil {
		t.Fatalf("binary driver: %v (after %d scenarios)", err, n)
	}
	fmt.Printf("SCENARIOS-RUN %d\n", n)
}

// TestRedisPair replays Redis command-level schedules ($VERIF_IN) of two store instances against miniredis.
func TestRedisPair(t *testing.T) {
	in, out := os.Getenv("VERIF_IN"), os.Getenv("VERIF_OUT")
	if in == "" || out == "" {
		t.Skip("VERIF_IN / VERIF_OUT not set")
	}
	n, err := runPairFile(in, out)
	if err != nil {
		t.Fatalf("redis pair driver: %v (after %d scenarios)", err, n)
	}
	fmt.Printf("SCENARIOS-RUN %d\n", n)
}

// TestJwks replays behaviours of KeySource.tla ($VERIF_IN) into the real DefaultJWKSProvider (real time, 1 s refresh interval).
func TestJwks(t *testing.T) {
	in, out := os.Getenv("VERIF_IN"), os.Getenv("VERIF_OUT")
	if in == "" || out == "" {
		t.Skip("VERIF_IN / VERIF_OUT not set")
	}
	n, err := runJwksFile(in, out)
	if err != nil {
		t.Fatalf("key-source driver: %v (after %d scenarios)", err, n)
	}
	fmt.Printf("SCENARIOS-RUN %d\n", n)
}

// TestEntropyChild prints the values of the first logins of a fresh process (used by the restart witness).
func TestEntropyChild(t *testing.T) {
	if os.Getenv("VERIF_ENTROPY_CHILD") == "" {
		t.Skip("not a child")
	}
	runEntropyChild()
}
