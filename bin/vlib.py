#!/usr/bin/env python3
"""Shared machinery of /verif/bin/check: build, TLC, driver, trace validation, evidence."""
import json, os, re, shutil, subprocess, sys, time, random, glob, hashlib

VERIF = os.path.dirname(os.path.dirname(os.path.abspath(__file__)))
SPECS = os.path.join(VERIF, "specs")
RUNROOT = os.path.join(VERIF, "run")
JAR = "/opt/veriftools/tla/tla2tools.jar"
# the tree the harness is built from: /repo's working tree (VERIF_REPO is only used to try seeded changes in a scratch worktree)
REPO = os.environ.get("VERIF_REPO", "/repo")


class Infra(Exception):
    """Infrastructure failure: exit 2, never a violation."""


def log(*a):
    print(*a, flush=True)


def raise_nofile():
    try:
        import resource
        soft, hard = resource.getrlimit(resource.RLIMIT_NOFILE)
        resource.setrlimit(resource.RLIMIT_NOFILE, (min(hard, 65536) if hard > 0 else 65536, hard))
    except Exception:
        pass


raise_nofile()


def goenv():
    e = dict(os.environ)
    for k in ("GOTOOLCHAIN", "GOSUMDB"):
        e.pop(k, None)
    e.update(GOFLAGS="-mod=mod", GOPROXY="off")
    return e


class Work:
    def __init__(self, prop, tier, seed, keep=False):
        self.prop, self.tier, self.seed = prop, tier, seed
        self.dir = os.path.join(RUNROOT, "%s-%s-%d" % (prop, tier, os.getpid()))
        shutil.rmtree(self.dir, ignore_errors=True)
        # scratch directories of runs that were killed (their process is gone) are removed: disk is limited
        for old in glob.glob(os.path.join(RUNROOT, "C??-*-*")):
            pid = old.rsplit("-", 1)[-1]
            if pid.isdigit() and not os.path.exists("/proc/" + pid):
                shutil.rmtree(old, ignore_errors=True)
        os.makedirs(self.dir)
        # the specifications as they are when the check starts (a check is not disturbed by edits made while it runs)
        self.specs = os.path.join(self.dir, "specs")
        shutil.copytree(SPECS, self.specs)
        self.keep = keep
        self.t0 = time.time()
        self.bin = None
        self.tlc_states = 0
        self.tlc_transitions = 0
        self.tlc_runs = []

    def path(self, *p):
        return os.path.join(self.dir, *p)

    def cleanup(self):
        if not self.keep:
            shutil.rmtree(self.dir, ignore_errors=True)

    # ---- Go harness --------------------------------------------------------
    def build(self, race=False):
        t = time.time()
        ov = {"Replace": {}}
        for f in glob.glob(os.path.join(VERIF, "harness/sys/*.go")):
            ov["Replace"][REPO + "/internal/zz_verif/" + os.path.basename(f)] = f
        sub = {"oidc": "internal/oidc", "k8s": "internal/k8s", "internal": "internal", "authz": "internal/authz", "server": "internal/server"}
        for f in glob.glob(os.path.join(VERIF, "harness/shims/*_shim.go")):
            pkg = os.path.basename(f)[:-len("_shim.go")]
            ov["Replace"]["%s/%s/zz_verif_shim.go" % (REPO, sub[pkg])] = f
        with open(self.path("overlay.json"), "w") as fh:
            json.dump(ov, fh)
        target = self.path("harness-race.test" if race else "harness.test")
        p = subprocess.run(["go", "test", "-tags", "verif", "-overlay", self.path("overlay.json"), "-vet=off", "-c", "-o", target] +
                           (["-race"] if race else []) + ["./internal/zz_verif/"], cwd=REPO, env=goenv(), capture_output=True, text=True, timeout=1500)
        if p.returncode != 0:
            raise Infra("harness build failed:\n" + p.stdout[-3000:] + p.stderr[-3000:])
        if race:
            self.bin_race = target
        else:
            self.bin = target
        log("[build] harness%s built from %s working tree in %.1fs" % (" (race detector on)" if race else "", REPO, time.time() - t))

    def drive(self, test, scenarios, name, env_extra=None, timeout=1800, race=False):
        """Run a driver test of the harness binary over a scenario file; returns the trace path (race=True: the race-detector
        build; returns (trace path, exit code, output) and leaves the judgement of a dying driver to the caller)."""
        inp, out = self.path(name + ".scn.ndjson"), self.path(name + ".trace.ndjson")
        with open(inp, "w") as fh:
            for s in scenarios:
                fh.write(json.dumps(s) + "\n")
        tmp = self.path("tmp-" + name)
        os.makedirs(tmp, exist_ok=True)
        env = dict(os.environ, VERIF_IN=inp, VERIF_OUT=out, VERIF_TMP=tmp, VERIF_SEED=str(self.seed))
        if env_extra:
            env.update(env_extra)
        t = time.time()
        try:
            p = subprocess.run([self.bin_race if race else self.bin, "-test.run", "^" + test + "$", "-test.timeout", "%ds" % timeout], env=env,
                               capture_output=True, text=True, timeout=timeout + 30, cwd=tmp)
        except subprocess.TimeoutExpired:
            raise Infra("driver %s timed out" % test)
        if race:
            log("[drive] %s: %d scenarios executed against the real code (race detector on) in %.1fs, exit %d" % (name, len(scenarios), time.time() - t, p.returncode))
            return out, p.returncode, p.stdout + p.stderr
        if p.returncode != 0:
            raise Infra("driver %s failed (exit %d):\n%s\n%s" % (test, p.returncode, p.stdout[-4000:], p.stderr[-4000:]))
        log("[drive] %s: %d scenarios executed against the real code in %.1fs" % (name, len(scenarios), time.time() - t))
        return out

    # ---- TLC ---------------------------------------------------------------
    def tlc(self, module, cfg_text, name, workers=8, extra=None, timeout=900, simulate=None, expect_violation=False, jvm=None):
        d = self.path("tlc-" + name)
        os.makedirs(d, exist_ok=True)
        for f in glob.glob(os.path.join(self.specs, "*.tla")):
            shutil.copy(f, d)
        with open(os.path.join(d, name + ".cfg"), "w") as fh:
            fh.write(cfg_text)
        cmd = ["java", "-XX:+UseParallelGC", "-Xss64m"] + (jvm or []) + ["-cp", JAR + ":/opt/veriftools/tla/CommunityModules-deps.jar:/opt/veriftools/tla/*",
               "tlc2.TLC", "-workers", str(workers), "-metadir", os.path.join(d, "meta"), "-config", name + ".cfg"]
        if simulate:
            cmd += ["-simulate", simulate]
        if extra:
            cmd += extra
        cmd += [module + ".tla"]
        t = time.time()
        try:
            p = subprocess.run(cmd, cwd=d, capture_output=True, text=True, timeout=timeout)
        except subprocess.TimeoutExpired:
            raise Infra("TLC %s timed out after %ds" % (name, timeout))
        out = p.stdout + p.stderr
        with open(os.path.join(d, "tlc.out"), "w") as fh:
            fh.write(out)
        m = re.search(r"(\d+) states generated, (\d+) distinct states found", out)
        gen, dist = (int(m.group(1)), int(m.group(2))) if m else (0, 0)
        viol = re.findall(r"Error: Invariant (\w+) is violated", out) + re.findall(r"Error: Action property (\w+) is violated", out)
        if re.search(r"Temporal properties were violated", out):
            viol.append("temporal")
        ok = ("Model checking completed. No error has been found" in out) or (simulate and p.returncode in (0,)) or bool(viol)
        if not ok and not expect_violation:
            raise Infra("TLC %s failed (exit %d):\n%s" % (name, p.returncode, out[-3000:]))
        self.tlc_runs.append({"name": name, "module": module, "generated": gen, "distinct": dist, "violated": viol, "wall_s": round(time.time() - t, 1)})
        return out, gen, dist, viol, d

    def tlc_exhaustive(self, module, cfg_text, name, **kw):
        out, gen, dist, viol, d = self.tlc(module, cfg_text, name, **kw)
        self.tlc_states += dist
        self.tlc_transitions += gen
        log("[tlc] %s/%s: %d distinct states, %d transitions, violated=%s" % (module, name, dist, gen, viol or "none"))
        return out, viol

    def scenarios_from(self, out):
        """Extract the scenarios printed by ExportInv/ExportScn (PrintT(<<"SCN", json>>))."""
        res = []
        for m in re.finditer(r'^<<"SCN", "(.*)">>$', out, re.M):
            s = m.group(1).encode().decode("unicode_escape") if False else json.loads('"' + m.group(1) + '"')
            res.append(json.loads(s))
        return res

    def validate(self, trace, name, module="AuthMonitor", timeout=1800):
        """Trace validation: TLC consumes the recorded trace under the trace specification. Long traces are cut at scenario
        boundaries and validated by several TLC processes at once; the verdicts are merged."""
        with open(trace) as fh:
            lines = fh.readlines()
        CH = 30000
        if len(lines) <= CH * 1.5:
            return self._validate_one(trace, name, module, timeout)
        heads, cuts = [], []
        for i, ln in enumerate(lines):
            ev = ln[:200]
            if '"ev":"targets"' in ev or '"ev":"inputs"' in ev:
                heads.append(ln)
            if any(k in ev for k in ('"ev":"reset"', '"ev":"sreset"', '"ev":"kreset"', '"ev":"treset"', '"ev":"breset"', '"ev":"cfg"', '"ev":"c07"', '"ev":"c08"', '"ev":"rpair"')):
                cuts.append(i)
        chunks, start = [], (cuts[0] if cuts else 0)
        for c in cuts:
            if c - start >= CH:
                chunks.append((start, c))
                start = c
        chunks.append((start, len(lines)))
        paths = []
        for k, (a, b) in enumerate(chunks):
            p = self.path("%s.part%d.ndjson" % (name, k))
            with open(p, "w") as fh:
                fh.writelines(heads)
                fh.writelines(lines[a:b])
            paths.append(p)
        import concurrent.futures
        merged = {"consumed": 0, "len": 0, "viol": [], "drift": [], "fired": {}, "torn": {}}
        with concurrent.futures.ThreadPoolExecutor(max_workers=6) as ex:
            for v in ex.map(lambda kp: self._validate_one(kp[1], "%s-p%d" % (name, kp[0]), module, timeout, quiet=True, xmx="4g"), enumerate(paths)):
                merged["consumed"] += v["consumed"]
                merged["len"] += v["len"]
                merged["viol"] += v["viol"]
                merged["drift"] += v.get("drift", [])
                for k_, n_ in (v.get("fired") or {}).items():
                    merged["fired"][k_] = merged["fired"].get(k_, 0) + n_
                for k_, n_ in (v.get("torn") or {}).items():
                    merged["torn"][k_] = merged["torn"].get(k_, 0) + n_
        log("[trace] %s: %d events of the real execution validated by %s in %d parallel parts; %d violation records, %d drift" % (
            name, len(lines), module, len(paths), len(merged["viol"]), len(merged["drift"])))
        return merged

    def _validate_one(self, trace, name, module, timeout, quiet=False, xmx=None):
        outf = self.path(name + ".verdict.json")
        cfg = 'SPECIFICATION Spec\nCONSTANTS\n  TraceFile = "%s"\n  OutFile = "%s"\nINVARIANT Emit\nCHECK_DEADLOCK FALSE\n' % (trace, outf)
        out, gen, dist, viol, d = self.tlc(module, cfg, "mon-" + name, workers=1, timeout=timeout, jvm=(["-Xmx" + xmx] if xmx else None))
        if not os.path.exists(outf):
            # the trace specification rejected a line: find how far it got
            raise Infra("trace %s was not consumed to the end by %s (no action accepts some line):\n%s" % (name, module, out[-2500:]))
        v = json.load(open(outf))
        if v["consumed"] != v["len"]:
            raise Infra("trace %s: consumed %d of %d lines" % (name, v["consumed"], v["len"]))
        if not quiet:
            log("[trace] %s: %d events of the real execution validated by %s; %d violation records, %d drift" % (
                name, v["len"], module, len(v["viol"]), len(v.get("drift", []))))
        return v


def load_known():
    p = os.path.join(VERIF, "known_findings.json")
    if not os.path.exists(p):
        return {"known": [], "fixed": []}
    return json.load(open(p))


def write_evidence(prop, tier, seed, level, coverage, wall, violations, assumptions):
    if REPO != "/repo":
        return  # trying a seeded change in a scratch worktree: the committed evidence describes /repo only
    os.makedirs(os.path.join(VERIF, "evidence"), exist_ok=True)
    ev = {"property_id": prop, "tier": tier, "seed": seed, "level": level, "coverage": coverage,
          "assumptions": assumptions, "wall_s": round(wall, 1), "violations": violations}
    tmp = os.path.join(VERIF, "evidence", prop + ".json.tmp")
    with open(tmp, "w") as fh:
        json.dump(ev, fh, indent=1)
    os.replace(tmp, os.path.join(VERIF, "evidence", prop + ".json"))
