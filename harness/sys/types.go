package zzverif

import "encoding/json"

// FilterSpec describes one OIDC filter (one chain per filter, selected by the
// request header x-verif-chain).
type FilterSpec struct {
	Name                string   `json:"name"`
	Store               string   `json:"store"` // "memory" | "redis" | "redis2" (a second Redis URI)
	Prefix              string   `json:"prefix"`
	AccessFwd           bool     `json:"accessFwd"`
	IDHeader            string   `json:"idHeader"`
	IDPreamble          string   `json:"idPreamble"`
	ATHeader            string   `json:"atHeader"`
	ATPreamble          string   `json:"atPreamble"`
	Logout              bool     `json:"logout"`
	LogoutRedirect      string   `json:"logoutRedirect"` // "" = take it from discovery (needs Discovery)
	Abs                 int      `json:"abs"`
	Idle                int      `json:"idle"`
	ClientID            string   `json:"clientId"`
	ClientSecret        string   `json:"clientSecret"`
	Scopes              []string `json:"scopes"`
	AuthzQuery          string   `json:"authzQuery"` // raw own query of the authorization endpoint
	Discovery           bool     `json:"discovery"`
	Jwks                string   `json:"jwks"`             // "static" (default) | "fetch"
	IdpID               string   `json:"idp"`              // "" = idp "A"; "B" = a second provider (own endpoints)
	Override            bool     `json:"override"`         // configure through default_oidc_config + oidc_override instead of a plain oidc filter
	ChainName           string   `json:"chainName"`        // name of the chain in the configuration (default: the filter name; names need not be unique)
	KeySet              string   `json:"keySet"`           // configured static key set: "" = k1+k2, "k3"
	After               string   `json:"after"`            // a mock filter after the OIDC filter in the same chain: "" | "deny" | "allow"
	SecretRef           string   `json:"secretRef"`        // take the client secret from this Kubernetes Secret (driven by "secret" steps)
	LogoutSlash         bool     `json:"logoutSlash"`      // the configured logout path ends in a slash
	DiscoveryDoc        string   `json:"discoveryDoc"`     // variant of the discovery document: "" | "pkcePlainOnly" | "noEndSession"
	NoLogoutRedirect    bool     `json:"noLogoutRedirect"` // logout configured without redirect_uri (taken from discovery)
	inheritedLogoutPath string
	CallbackPort        string `json:"callbackPort"`   // "" | "443": the callback URI names the default port explicitly (requests still say Host: app.test)
	SharedCallback      bool   `json:"sharedCallback"` // all such filters use one callback URI (https://app.test/shared/callback)
	InheritLogout       bool   `json:"inheritLogout"`  // override-based filter without a logout section of its own: the default's applies
}

type CfgSpec struct {
	Filters        []FilterSpec    `json:"filters"`
	TriggerRules   json.RawMessage `json:"triggerRules,omitempty"`
	AllowUnmatched bool            `json:"allowUnmatched"`
	LogLevel       string          `json:"logLevel"` // log_level of the configuration ("" = error); the logging unit is set up as cmd/main.go does
	Env            string          `json:"env"`      // request envelope of every request of the scenario (see applyEnvelope); "" = plain GET over https
	Grpc           bool            `json:"grpc"`     // the checks travel over gRPC through server.Server (listener, interceptors) instead of being method calls
	RealJwks       bool            `json:"realJwks"` // the filter is handed the key provider object itself, as cmd/main.go does (no key-source gates or events)
	Replicas       int             `json:"replicas"` // service instances built from this one configuration (default 1); they share Redis and the provider, nothing else
}

// AnsSpec programs the simulated token endpoint's next answer.
type AnsSpec struct {
	Mode      string `json:"mode"`      // honest | lenient | fail-before | fail-after | status:<n> | body:<class>
	ID        string `json:"id"`        // ID-token class, default good
	Variant   int    `json:"variant"`   // rendering variant within the class
	ExpiresIn *int   `json:"expiresIn"` // nil = absent
	RT        bool   `json:"rt"`        // issue a refresh token (login) / keep issuing (refresh)
	Rotate    bool   `json:"rotate"`    // refresh: rotate the refresh token
	OmitID    bool   `json:"omitId"`
	OmitAT    bool   `json:"omitAt"`
	TokenType string `json:"tt"` // default Bearer
	AudArray  bool   `json:"audArray"`
	AudMulti  bool   `json:"audMulti"` // the audience is an array naming the client AND a resource server (no azp claim: it is optional)
	Extra     bool   `json:"extra"`    // extra members in the body
	IatSkew   int    `json:"iatSkew"`  // seconds the provider's clock is ahead: iat and nbf of the ID token lie that far in the future
	Big       bool   `json:"big"`      // a large (but compliant) answer: ID token with hundreds of groups, a 12 KB extra member
	IDLife    int    `json:"idLife"`   // seconds, default 60
	RfNonce   string `json:"rfNonce"`  // refresh: same (default) | absent | foreign
	KeySet    string `json:"keySet"`   // "" | "k3": switch the configured key set before answering
	SignKey   string `json:"signKey"`  // "" = a key of the addressed filter's configured set | "k1" | "k3": sign honestly-shaped tokens with this key
}

// Directive is what a step hands to the pending gate of a check.
type Directive struct {
	Fault  string   `json:"fault"`  // none | before | after (store gates)
	Ans    *AnsSpec `json:"ans"`    // IdP gates
	Jwks   string   `json:"jwks"`   // ok | fail (key-source gates)
	Cancel bool     `json:"cancel"` // the request's context is cancelled at this gate (Envoy's timeout fired, the client went away); the step itself proceeds
}

// Step is one scenario step.
type Step struct {
	Op string `json:"op"` // start | step | finish | check | tick | authz | browse | keyset | secret

	C        string                `json:"c"`        // check id (start/step/finish/check)
	How      string                `json:"how"`      // tamper: dropCreated | epochCreated | garbageCreated | dropTokens
	R        int                   `json:"r"`        // replica (service instance) that receives the request, default 0
	B        string                `json:"b"`        // browser id
	Env      string                `json:"env"`      // request envelope of this request only (overrides the scenario's; "plain" = none)
	F        string                `json:"f"`        // filter (chain) addressed
	Kind     string                `json:"kind"`     // app | callback | logout
	Cookie   string                `json:"cookie"`   // none | jar | sid:<k> | forged | raw:<value>
	CookieAs string                `json:"cookieAs"` // send the cookie under this filter's cookie name (default F)
	DecoySid string                `json:"decoySid"` // with decoy "before": the look-alike cookie carries this session id (sid:<k>) instead of a constant
	Decoy    string                `json:"decoy"`    // "" | "before": a look-alike cookie (x<name>=forged) precedes the real one | "only": the value travels ONLY in a look-alike cookie
	St       string                `json:"st"`       // callback: none | sid:<k> (state issued with k-th sid) | jar | bogus
	Code     string                `json:"code"`     // callback: none | code:<k> | jar | bogus
	QShape   string                `json:"qshape"`   // callback query shape
	URL      int                   `json:"url"`      // index into the URL pool (app requests)
	Shape    string                `json:"shape"`    // request shape class (C15)
	Dir      *Directive            `json:"dir"`      // step: directive for the pending gate
	Ans      *AnsSpec              `json:"ans"`      // check/finish/browse: default IdP answer
	Dirs     map[string]*Directive `json:"dirs"`     // check: directive by gate index ("0","1",..)
	D        int                   `json:"d"`        // tick: seconds
	Sid      int                   `json:"sid"`      // authz: k-th issued session
	MaxHops  int                   `json:"maxHops"`  // browse
	Expect   string                `json:"expect"`   // model's predicted outcome of the check (Layer B), optional
	Value    string                `json:"value"`    // keyset / secret value
}

type Scenario struct {
	ID    string   `json:"id"`
	Store string   `json:"storeOverride,omitempty"`
	Cfg   CfgSpec  `json:"cfg"`
	Steps []Step   `json:"steps"`
	Tags  []string `json:"tags,omitempty"`
}
