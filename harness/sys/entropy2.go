package zzverif

// Further witnesses for Entropy.tla: a slow entropy source (DeriveWhenSourceSlow), a restart of the process
// (DeriveFromEarlierRun) and truly concurrent logins through the real server (DeriveFromSibling).

import (
	"context"
	crand "crypto/rand"
	"crypto/sha256"
	"encoding/binary"
	"encoding/json"
	"errors"
	"fmt"
	"github.com/istio-ecosystem/authservice/internal/oidc"
	"io"
	"net/url"
	"os"
	"os/exec"
	"strconv"
	"strings"
	"sync"
	"time"

	envoy "github.com/envoyproxy/go-control-plane/envoy/service/auth/v3"
)

// detReader is an entropy source with known content: block i of the stream is sha256(seed || i). The first `slowReads`
// reads take `delay` each (a source that is slow to answer, as at early boot).
type detReader struct {
	mu        sync.Mutex
	seed      uint64
	n         uint64
	buf       []byte
	slowReads int
	delay     time.Duration
	failFrom  int // > 0: the failFrom-th read and every later one fail (a source that stops answering)
	reads     int
}

func (r *detReader) Read(p []byte) (int, error) {
	r.mu.Lock()
	r.reads++
	if r.failFrom > 0 && r.reads >= r.failFrom {
		r.mu.Unlock()
		return 0, errors.New("verif: the entropy source is unavailable")
	}
	slow := r.slowReads > 0
	if slow {
		r.slowReads--
	}
	r.mu.Unlock()
	if slow {
		time.Sleep(r.delay)
	}
	r.mu.Lock()
	defer r.mu.Unlock()
	for len(r.buf) < len(p) {
		var b [16]byte
		binary.BigEndian.PutUint64(b[:8], r.seed)
		binary.BigEndian.PutUint64(b[8:], r.n)
		r.n++
		h := sha256.Sum256(b[:])
		r.buf = append(r.buf, h[:]...)
	}
	copy(p, r.buf[:len(p)])
	r.buf = r.buf[len(p):]
	return len(p), nil
}

func withReader(r io.Reader, f func()) {
	old := crand.Reader
	crand.Reader = r
	defer func() { crand.Reader = old }()
	f()
}

func sameLogin(a, b loginValues) bool {
	return a.sid == b.sid && a.nonce == b.nonce && a.state == b.state && a.verifier == b.verifier
}

// witnessSlowSource: if, with a prompt source of known content, the values are a function of that content, they must be
// the same function of it when the source is slow to answer. A generator that falls back to something else while the
// source is slow yields different values. Returns (derived, verdictApplies, what).
func witnessSlowSource() (bool, bool, string) {
	var o1, o1b, o2 loginValues
	withReader(&detReader{seed: 7}, func() { o1 = drawLogin() })
	withReader(&detReader{seed: 7}, func() { o1b = drawLogin() })
	if !sameLogin(o1, o1b) {
		// the generator keeps state of its own (for instance a user-space CSPRNG seeded once): this experiment says nothing
		return false, false, "generator-is-not-a-function-of-the-source-content"
	}
	done := make(chan struct{})
	go func() {
		defer close(done)
		withReader(&detReader{seed: 7, slowReads: 3, delay: 350 * time.Millisecond}, func() { o2 = drawLogin() })
	}()
	select {
	case <-done:
	case <-time.After(60 * time.Second):
		return false, true, "generator-blocks-while-the-source-is-slow" // blocking is failing closed, not a weakness
	}
	if !sameLogin(o1, o2) {
		return true, true, "values-do-not-come-from-the-entropy-source-while-it-is-slow"
	}
	return false, true, "none"
}

// witnessFailingSource: if the values are a function of the source's content, then a source that fails (from its first
// read, or after a few) leaves nothing to make them from: a generator that hands out values all the same took them from
// somewhere else - the clock, a counter, a constant. Refusing (a panic, a blocked call, the runtime ending the process
// because crypto/rand cannot be read) is failing closed. Each trial runs in a process of its own.
func witnessFailingSource(self string) (bool, bool, string) {
	ref, err := spawnChildMode(self, "failing:0")
	if err != nil || len(ref) < 2 || len(ref[0]) < 3 || len(ref[1]) < 3 {
		return false, false, "reference-draw-did-not-complete"
	}
	for k := 0; k < 3; k++ {
		if ref[0][k] != ref[1][k] {
			return false, false, "generator-is-not-a-function-of-the-source-content"
		}
	}
	for _, from := range []int{1, 2, 9, 40} {
		rows, err := spawnChildMode(self, fmt.Sprintf("failing:%d", from))
		if err != nil || len(rows) == 0 {
			continue // the process ended without values: refused
		}
		for k, name := range []string{"session-id", "nonce", "state"} {
			if k < len(rows[0]) && rows[0][k] != "" && rows[0][k] != ref[0][k] {
				return true, true, fmt.Sprintf("%s-issued-although-the-entropy-source-fails-from-read-%d", name, from)
			}
		}
	}
	return false, true, "none"
}

// runFailingChild draws a session id, a nonce and a state from a source of known content that fails from its n-th read on
// (n = 0: never; then the draw is made twice, to show that the values are a function of the content). A value that cannot
// be drawn is printed empty.
func runFailingChild(n int) {
	draw := func() []string {
		out := []string{"", "", ""}
		withReader(&detReader{seed: 11, failFrom: n}, func() {
			g := oidc.NewRandomGenerator()
			for k, f := range []func() string{g.GenerateSessionID, g.GenerateNonce, g.GenerateState} {
				func() {
					defer func() { _ = recover() }()
					out[k] = f()
				}()
			}
		})
		return out
	}
	rows := [][]string{draw()}
	if n == 0 {
		rows = append(rows, draw())
	}
	b, _ := json.Marshal(rows)
	fmt.Println("ENTROPY-CHILD " + string(b))
}

// childLogins is what a fresh process prints: the values of its first logins.
func childLogins(n int) []loginValues {
	out := make([]loginValues, 0, n)
	for i := 0; i < n; i++ {
		out = append(out, drawLogin())
	}
	return out
}

func runEntropyChild() {
	if m := os.Getenv("VERIF_ENTROPY_CHILD"); strings.HasPrefix(m, "failing:") {
		n, _ := strconv.Atoi(strings.TrimPrefix(m, "failing:"))
		runFailingChild(n)
		return
	}
	ls := childLogins(3)
	var rows [][]string
	for _, l := range ls {
		rows = append(rows, []string{l.sid, l.nonce, l.state, l.verifier})
	}
	b, _ := json.Marshal(rows)
	fmt.Println("ENTROPY-CHILD " + string(b))
}

func spawnChild(self string) ([][]string, error) { return spawnChildMode(self, "1") }

func spawnChildMode(self, mode string) ([][]string, error) {
	cmd := exec.Command(self, "-test.run", "^TestEntropyChild$", "-test.timeout", "60s")
	cmd.Env = append(os.Environ(), "VERIF_ENTROPY_CHILD="+mode)
	out, err := cmd.CombinedOutput()
	if err != nil {
		return nil, fmt.Errorf("child: %v: %s", err, out)
	}
	for _, ln := range strings.Split(string(out), "\n") {
		if strings.HasPrefix(ln, "ENTROPY-CHILD ") {
			var rows [][]string
			if err := json.Unmarshal([]byte(strings.TrimPrefix(ln, "ENTROPY-CHILD ")), &rows); err != nil {
				return nil, err
			}
			return rows, nil
		}
	}
	return nil, fmt.Errorf("child printed no values: %s", out)
}

// witnessRestart: two fresh processes of the service's code issue the same values.
func witnessRestart(self string) (bool, string, error) {
	a, err := spawnChild(self)
	if err != nil {
		return false, "", err
	}
	b, err := spawnChild(self)
	if err != nil {
		return false, "", err
	}
	seen := map[string]bool{}
	for _, row := range a {
		for _, v := range row {
			seen[v] = true
		}
	}
	for _, row := range b {
		for _, v := range row {
			if seen[v] {
				return true, "values-repeat-after-a-restart", nil
			}
		}
	}
	return false, "none", nil
}

// witnessConcurrentServer: cookie-less requests answered in parallel by one server instance; every session id, state and
// nonce handed out must be different from every other.
func witnessConcurrentServer(tmp string, workers, per int) (bool, string, int, error) {
	var doc map[string]any
	_ = json.Unmarshal([]byte(staticOIDC), &doc)
	cfg, err := loadDispatchConfig(map[string]any{"chains": []any{map[string]any{"name": "c", "filters": []any{map[string]any{"oidc": doc}}}}}, tmp)
	if err != nil {
		return false, "", 0, err
	}
	flt, _, err := newFilter(cfg)
	if err != nil {
		return false, "", 0, err
	}
	type vals struct{ sid, state, nonce string }
	res := make([][]vals, workers)
	var wg sync.WaitGroup
	start := make(chan struct{})
	for w := 0; w < workers; w++ {
		wg.Add(1)
		go func(w int) {
			defer wg.Done()
			<-start
			for i := 0; i < per; i++ {
				resp, err := flt.Check(context.Background(), dispatchReq("/x", nil))
				if err != nil || resp.GetDeniedResponse() == nil {
					continue
				}
				var v vals
				for _, h := range resp.GetDeniedResponse().GetHeaders() {
					switch strings.ToLower(h.GetHeader().GetKey()) {
					case "set-cookie":
						c := h.GetHeader().GetValue()
						if i := strings.Index(c, "="); i >= 0 {
							v.sid = strings.SplitN(c[i+1:], ";", 2)[0]
						}
					case "location":
						if u, err := url.Parse(h.GetHeader().GetValue()); err == nil {
							v.state, v.nonce = u.Query().Get("state"), u.Query().Get("nonce")
						}
					}
				}
				res[w] = append(res[w], v)
			}
		}(w)
	}
	close(start)
	wg.Wait()
	seen := map[string]string{}
	n := 0
	for _, l := range res {
		for _, v := range l {
			n++
			for kind, x := range map[string]string{"sid": v.sid, "state": v.state, "nonce": v.nonce} {
				if x == "" {
					continue
				}
				if k0, ok := seen[x]; ok {
					return true, "concurrent-logins-share-a-value:" + k0 + "=" + kind, n, nil
				}
			}
			for kind, x := range map[string]string{"sid": v.sid, "state": v.state, "nonce": v.nonce} {
				if x != "" {
					seen[x] = kind
				}
			}
		}
	}
	if n < workers*per/2 {
		return false, "", n, fmt.Errorf("only %d of %d concurrent logins produced a redirect", n, workers*per)
	}
	return false, "none", n, nil
}

var _ = envoy.CheckRequest{}
