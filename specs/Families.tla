------------------------------ MODULE Families ------------------------------
(***************************************************************************)
(* Input grammars of the system driver, enumerated by TLC.                 *)
(*                                                                         *)
(* Each family is a finite product of classes (token classes, provider     *)
(* answer shapes, request shapes, configurations, histories of a fixed     *)
(* form).  TLC enumerates the product as initial states and prints one     *)
(* driver scenario per element; the scenario carries what the              *)
(* specification says about the element (e.g. MustReject) as tags.  The    *)
(* harness renders every class into concrete bytes (several variants per   *)
(* class) and replays the scenario against the real ExtAuthZFilter.Check;  *)
(* AuthMonitor judges the recorded trace.                                  *)
(***************************************************************************)
EXTENDS Integers, Sequences, FiniteSets, TLC, Json

CONSTANTS Family, Tier     \* Tier: "quick" | "thorough"

VARIABLE pick

Quick == Tier = "quick"

---------------------------------------------------------------------------
\* building blocks of driver scenarios
Life == 60
Ans0 == [mode |-> "honest", id |-> "good", variant |-> 0, expiresIn |-> Life, rt |-> TRUE, rotate |-> FALSE, omitId |-> FALSE,
         omitAt |-> FALSE, tt |-> "Bearer", audArray |-> FALSE, audMulti |-> FALSE, extra |-> FALSE, big |-> FALSE, iatSkew |-> 0, idLife |-> Life, rfNonce |-> "same", keySet |-> ""]
NoExp(a) == [x \in (DOMAIN a) \ {"expiresIn"} |-> a[x]]

Flt(name, fwd, store) == [name |-> name, store |-> store, accessFwd |-> fwd, logout |-> TRUE, prefix |-> "", abs |-> 0, idle |-> 0,
                          idPreamble |-> "Bearer", idHeader |-> "authorization", atHeader |-> "x-access-token", atPreamble |-> "",
                          scopes |-> <<>>, authzQuery |-> "", clientId |-> "", discovery |-> FALSE, idp |-> "", callbackPort |-> ""]

App(b, f, cookie, url, ans)  == [op |-> "check", b |-> b, f |-> f, kind |-> "app", cookie |-> cookie, url |-> url, ans |-> ans]
Logout(b, f, cookie)         == [op |-> "check", b |-> b, f |-> f, kind |-> "logout", cookie |-> cookie]
Callback(b, f, cookie, st, code, shape, ans) ==
  [op |-> "check", b |-> b, f |-> f, kind |-> "callback", cookie |-> cookie, st |-> st, code |-> code, qshape |-> shape, ans |-> ans]
Browse(b, f, url, ans) == [op |-> "browse", b |-> b, f |-> f, url |-> url, ans |-> ans, maxHops |-> 6]
Authz(b, k)  == [op |-> "authz", b |-> b, sid |-> k]
Tick(d)      == [op |-> "tick", d |-> d]
Scn(id, filters, steps, tags) == [id |-> id, cfg |-> [filters |-> filters], steps |-> steps, tags |-> tags]

---------------------------------------------------------------------------
(* C02: the adversarial token grammar *)
TokenClass == {"good", "algNone", "hmacWithPublicKey", "foreignKey", "kidMissing", "kidOfOtherKey", "payloadTampered",
               "graftedOnAccepted",     \* header and signature of a token the service accepted EARLIER, around another payload
               "sigTampered", "sigStripped", "nestedJws", "garbage", "audAbsent", "audForeign", "audNearMiss", "audForeignAzpClient",
               "audArrayWithClient", "nonceAbsent", "nonceForeign", "nonceNearMiss", "nonceEmpty", "nonceNonString"}
BadSig   == {"algNone", "hmacWithPublicKey", "foreignKey", "payloadTampered", "graftedOnAccepted", "sigTampered", "sigStripped", "nestedJws", "garbage"}
BadAud   == {"audAbsent", "audForeign", "audNearMiss", "audForeignAzpClient"}   \* (azp naming the client does not make it an audience)
BadNonce == {"nonceAbsent", "nonceForeign", "nonceNearMiss", "nonceEmpty", "nonceNonString"}
\* what the property demands; classes in neither set may go either way (kid games with a genuinely valid signature)
MustReject(cls, path) == cls \in BadSig \cup BadAud \/ (path = "login" /\ cls \in BadNonce)
MustAccept(cls, path) == cls \in {"good", "audArrayWithClient"}

C02Space == [cls : TokenClass, path : {"login", "refresh"}, variant : IF Quick THEN {0, 1} ELSE 0..4,
             fwd : BOOLEAN, pre : IF Quick THEN {"Bearer"} ELSE {"Bearer", ""}, hist : IF Quick THEN {0} ELSE {0, 2},
             store : IF Quick THEN {"memory"} ELSE {"memory", "redis"}]

C02Scn(p) ==
  LET f == [Flt("f1", p.fwd, p.store) EXCEPT !.idPreamble = p.pre, !.atPreamble = IF p.pre = "" THEN "Token" ELSE ""]
      bad == [Ans0 EXCEPT !.id = p.cls, !.variant = p.variant]
      honestRefresh == <<Tick(Life + 1), App("b1", "f1", "jar", 0, [Ans0 EXCEPT !.rotate = TRUE])>>
      rep(n) == IF n = 0 THEN <<>> ELSE IF n = 1 THEN honestRefresh ELSE honestRefresh \o honestRefresh
      steps ==
        IF p.path = "login" /\ p.cls = "graftedOnAccepted"       \* another browser's honest login comes first
        THEN <<Browse("b2", "f1", 2, Ans0), App("b2", "f1", "jar", 2, Ans0),
               App("b1", "f1", "none", 1, Ans0), Authz("b1", 2), Callback("b1", "f1", "jar", "jar", "jar", "ok", bad),
               App("b1", "f1", "jar", 1, Ans0), App("b2", "f1", "jar", 2, Ans0)>>
        ELSE IF p.path = "login"
        THEN <<App("b1", "f1", "none", 1, Ans0), Authz("b1", 1), Callback("b1", "f1", "jar", "jar", "jar", "ok", bad),
               App("b1", "f1", "jar", 1, Ans0)>>
        ELSE <<Browse("b1", "f1", 1, Ans0)>> \o rep(p.hist) \o
             <<Tick(Life + 1), App("b1", "f1", "jar", 1, bad), App("b1", "f1", "jar", 1, Ans0)>>
  IN Scn("c02/" \o p.cls \o "/" \o p.path \o "/v" \o ToString(p.variant) \o (IF p.fwd THEN "/fwd" ELSE "/nofwd")
           \o "/" \o p.pre \o "/h" \o ToString(p.hist) \o "/" \o p.store,
         <<f>>, steps,
         <<"tokenClass", IF MustReject(p.cls, p.path) THEN "mustReject" ELSE IF MustAccept(p.cls, p.path) THEN "mustAccept" ELSE "either">>)

---------------------------------------------------------------------------
(* C03: compliant provider answer shapes x configurations x originally requested URLs *)
URLs == 0..9
C03Core == [expiresIn : BOOLEAN, rt : BOOLEAN, fwd : BOOLEAN, store : {"memory", "redis"}]
C03Alt  == {"none", "audArray", "audMulti", "bearerLower", "bearerUpper", "extra", "big", "clockAhead", "prefix", "noLogout", "scopes", "discovery", "rules", "cbPort"}
C03Space == IF Quick
            THEN [core : C03Core, alt : {"none"}, url : URLs] \cup [core : C03Core, alt : C03Alt, url : {1}]
            ELSE [core : C03Core, alt : C03Alt, url : URLs]

C03Scn(p) ==
  LET a0 == [Ans0 EXCEPT !.rt = p.core.rt,
                         !.audArray = (p.alt = "audArray"),
                         !.audMulti = (p.alt = "audMulti"),      \* the client AND a resource server as audiences, no azp (optional)
                         !.tt = (IF p.alt = "bearerLower" THEN "bearer" ELSE IF p.alt = "bearerUpper" THEN "BEARER" ELSE "Bearer"),
                         !.extra = (p.alt = "extra"),
                         !.iatSkew = (IF p.alt = "clockAhead" THEN 4 ELSE 0),
                         !.big = (p.alt = "big")]      \* a large answer: an ID token with hundreds of group claims, a long extra member
      a  == IF p.core.expiresIn THEN a0 ELSE NoExp(a0)
      f0 == Flt("f1", p.core.fwd, p.core.store)
      f  == [f0 EXCEPT !.prefix = (IF p.alt = "prefix" THEN "my-app.1" ELSE ""),
                       !.logout = (p.alt # "noLogout"),
                       !.scopes = (IF p.alt = "scopes" THEN <<"profile", "email">> ELSE <<>>),
                       !.discovery = (p.alt = "discovery"),
                       !.callbackPort = (IF p.alt = "cbPort" THEN "443" ELSE "")]   \* callback_uri names the default port, the browser's Host does not
      steps == <<Browse("b1", "f1", p.url, a), Tick(10), App("b1", "f1", "jar", p.url, a), Tick(20), App("b1", "f1", "jar", (p.url + 1) % 10, a)>>
      base == Scn("c03/" \o ToString(p.core.expiresIn) \o "-" \o ToString(p.core.rt) \o "-" \o ToString(p.core.fwd) \o "-" \o p.core.store
                    \o "/" \o p.alt \o "/u" \o ToString(p.url), <<f>>, steps, <<"compliantLogin">>)
  IN IF p.alt = "rules"
     THEN [base EXCEPT !.cfg = [filters |-> <<f>>, triggerRules |-> <<[excluded_paths |-> <<[exact |-> "/healthz"]>>,
                                                                        included_paths |-> <<[prefix |-> "/"]>>]>>]]
     ELSE base

---------------------------------------------------------------------------
(* C04: callback query shapes and replays *)
QShapes == {"ok", "reordered", "dupGoodFirst", "dupBadFirst", "caseKeys", "noState", "noCode", "emptyState", "trailingSpace",
            "prefixState", "upperState", "empty", "noQuery", "pctzz", "semicolon", "fragment", "encodedKeys",
            \* the provider's authorization ERROR response (RFC 6749 4.1.2.1): no code, an error, optionally a description
            "errorDenied", "errorRetriable", "errorWithDescription", "errorNoState"}
C04Space == [shape : QShapes, store : {"memory", "redis"}, replay : {"same", "otherSession", "noCookie"}, port : {""}]
            \cup [shape : {"ok", "reordered"}, store : {"memory", "redis"}, replay : {"same"}, port : {"443"}]

C04Scn(p) ==
  LET f == [Flt("f1", TRUE, p.store) EXCEPT !.callbackPort = p.port]
      again == IF p.replay = "same" THEN Callback("b1", "f1", "sid:1", "sid:1", "code:1", "ok", Ans0)
               ELSE IF p.replay = "otherSession" THEN Callback("b2", "f1", "sid:2", "sid:1", "code:1", "ok", Ans0)
               ELSE Callback("b2", "f1", "none", "sid:1", "code:1", "ok", Ans0)
  IN Scn("c04/" \o p.shape \o "/" \o p.store \o "/" \o p.replay \o (IF p.port = "" THEN "" ELSE "/port" \o p.port), <<f>>,
         <<App("b1", "f1", "none", 1, Ans0), App("b2", "f1", "none", 2, Ans0), Authz("b1", 1), Authz("b2", 2),
           Callback("b1", "f1", "sid:1", "sid:1", "code:1", p.shape, Ans0),
           Callback("b1", "f1", "sid:1", "sid:1", "code:1", "ok", Ans0),      \* honest completion (or a replay if the shaped one succeeded)
           again,
           App("b1", "f1", "sid:1", 1, Ans0), App("b2", "f1", "sid:2", 2, Ans0)>>,
         <<"callbackShapes">>)

---------------------------------------------------------------------------
(* C05: presented session id classes x request kinds x cookie prefixes *)
Presented == {"absent", "stale", "forged", "pending", "authenticated", "otherBrowser"}
Prefixes  == {"", "a", "My-App_1.x"}
C05Space == [pres : Presented, kind : {"app", "callback", "logout"}, prefix : Prefixes, store : {"memory", "redis"}]

C05Scn(p) ==
  LET f == [Flt("f1", TRUE, p.store) EXCEPT !.prefix = p.prefix]
      prep == CASE p.pres = "absent" -> <<>>
                [] p.pres = "stale" -> <<Browse("b1", "f1", 1, Ans0), Logout("b1", "f1", "jar")>>
                [] p.pres = "forged" -> <<>>
                [] p.pres = "pending" -> <<App("b1", "f1", "none", 1, Ans0), Authz("b1", 1)>>
                [] p.pres = "authenticated" -> <<Browse("b1", "f1", 1, Ans0)>>
                [] p.pres = "otherBrowser" -> <<Browse("b2", "f1", 2, Ans0)>>
      ck == CASE p.pres = "absent" -> "none" [] p.pres = "forged" -> "forged" [] OTHER -> "sid:1"
      req == IF p.kind = "app" THEN App("b1", "f1", ck, 3, Ans0)
             ELSE IF p.kind = "logout" THEN Logout("b1", "f1", ck)
             ELSE Callback("b1", "f1", ck, IF p.pres \in {"pending"} THEN "sid:1" ELSE "bogus", IF p.pres = "pending" THEN "code:1" ELSE "bogus", "ok", Ans0)
  IN Scn("c05/" \o p.pres \o "/" \o p.kind \o "/" \o p.prefix \o "/" \o p.store, <<f>>,
         prep \o <<req, App("b1", "f1", "jar", 3, Ans0), Tick(Life + 1), App("b1", "f1", ck, 4, [Ans0 EXCEPT !.mode = "fail-before"])>>,
         <<"presentedIds">>)

---------------------------------------------------------------------------
(* C11: refresh histories against provider policies *)
Policies == {"noRotate", "rotate", "rotateSometimes", "omitId", "omitAt", "omitExp", "omitAll", "keyChange", "failBefore", "failAfter",
             "badSig", "badAud", "http400", "garbageId", "foreignNonce", "failAfter503", "dropAfter", "dropBefore", "shorterLifetime", "clockAhead",
             "omitIdKeyRetired"}
C11Space == [pol : Policies, n : IF Quick THEN {1, 3} ELSE 1..6, fwd : BOOLEAN, store : {"memory", "redis"}]

PolAns(pol, i) ==
  CASE pol = "noRotate" -> Ans0
    [] pol = "rotate" -> [Ans0 EXCEPT !.rotate = TRUE]
    [] pol = "rotateSometimes" -> [Ans0 EXCEPT !.rotate = (i % 2 = 1)]
    [] pol = "omitId" -> [Ans0 EXCEPT !.omitId = TRUE, !.rotate = TRUE]
    [] pol = "omitAt" -> [Ans0 EXCEPT !.omitAt = TRUE]
    [] pol = "omitExp" -> NoExp([Ans0 EXCEPT !.rotate = TRUE])
    [] pol = "omitAll" -> NoExp([Ans0 EXCEPT !.omitAt = TRUE, !.omitId = (i % 2 = 0)])
    [] pol = "keyChange" -> [Ans0 EXCEPT !.id = "goodK3", !.keySet = "k3", !.rotate = TRUE]
    \* the provider retired the key that signed the session's ID token and (as it may) sends no new ID token with the refresh:
    \* the merged result keeps a token that no longer verifies
    [] pol = "omitIdKeyRetired" -> [Ans0 EXCEPT !.omitId = TRUE, !.keySet = "k3", !.rotate = TRUE]
    [] pol = "failBefore" -> [Ans0 EXCEPT !.mode = "fail-before"]
    [] pol = "failAfter" -> [Ans0 EXCEPT !.mode = "fail-after", !.rotate = TRUE]
    [] pol = "failAfter503" -> [Ans0 EXCEPT !.mode = "fail-after:503", !.rotate = TRUE]
    [] pol = "dropAfter" -> [Ans0 EXCEPT !.mode = "drop-after", !.rotate = TRUE]
    [] pol = "dropBefore" -> [Ans0 EXCEPT !.mode = "drop"]
    [] pol = "shorterLifetime" -> [Ans0 EXCEPT !.expiresIn = 20, !.rotate = TRUE]      \* the refresh grants a shorter access-token lifetime than the login did
    [] pol = "clockAhead" -> [Ans0 EXCEPT !.iatSkew = 4, !.rotate = TRUE]   \* the provider's clock runs a few seconds ahead of the service's (iat, nbf in the near future)
    [] pol = "badSig" -> [Ans0 EXCEPT !.id = "foreignKey"]
    [] pol = "badAud" -> [Ans0 EXCEPT !.id = "audForeign"]
    [] pol = "http400" -> [Ans0 EXCEPT !.mode = "status:400"]
    [] pol = "garbageId" -> [Ans0 EXCEPT !.id = "garbage", !.rotate = TRUE]
    [] pol = "foreignNonce" -> [Ans0 EXCEPT !.rfNonce = "foreign"]

Failing == {"failBefore", "failAfter", "badSig", "badAud", "http400", "failAfter503", "dropAfter", "dropBefore", "omitIdKeyRetired"}

RECURSIVE Rounds(_, _, _)
Rounds(pol, i, n) ==
  IF i > n THEN <<>>
  ELSE <<Tick(Life + 1),
         App("b1", "f1", "jar", 1, IF pol \in Failing /\ i < n THEN [Ans0 EXCEPT !.rotate = TRUE] ELSE PolAns(pol, i)),
         App("b1", "f1", "jar", 2, Ans0)>> \o Rounds(pol, i + 1, n)

C11Scn(p) ==
  Scn("c11/" \o p.pol \o "/n" \o ToString(p.n) \o (IF p.fwd THEN "/fwd/" ELSE "/nofwd/") \o p.store,
      <<Flt("f1", p.fwd, p.store)>>,
      <<Browse("b1", "f1", 1, IF p.pol = "shorterLifetime" THEN [Ans0 EXCEPT !.expiresIn = 300] ELSE Ans0)>> \o Rounds(p.pol, 1, p.n) \o <<App("b1", "f1", "jar", 3, Ans0)>>,
      <<"refreshPolicies", IF p.pol \in Failing THEN "lastRefreshFails" ELSE "refreshSucceeds">>)

---------------------------------------------------------------------------
(* C13: configurations with reserved / non-ASCII characters x requested URLs *)
\* (the last two: a ';' inside a value, as Azure B2C policies have; a stray '%' and a valueless flag - what strict query parsers refuse)
AQ   == {"", "tenant=a", "a=b%20c&d=%2F%3F%26&e=%C3%BC&a=2", "p=B2C_1_signin;v2&x=1", "rate=100%&flag"}
CIDs == {"", "cl ient/&=?#%+", "ü-client-✓"}
Scps == {<<>>, <<"profile", "email">>, <<"openid", "x+y", "ü">>, <<"myopenid", "https://api.example.com/openid.read">>}
C13Space == IF Quick THEN [aq : AQ, cid : CIDs, sc : Scps, url : {1}] \cup [aq : AQ, cid : {""}, sc : {<<>>}, url : URLs]
            ELSE [aq : AQ, cid : CIDs, sc : Scps, url : URLs]
C13Scn(p) ==
  LET f == [Flt("f1", TRUE, "memory") EXCEPT !.authzQuery = p.aq, !.clientId = p.cid, !.scopes = p.sc]
      tag == IF p.aq = "" THEN "q0" ELSE IF p.aq = "tenant=a" THEN "q1" ELSE IF p.aq = "p=B2C_1_signin;v2&x=1" THEN "q3" ELSE IF p.aq = "rate=100%&flag" THEN "q4" ELSE "q2"
      ctag == IF p.cid = "" THEN "c0" ELSE IF p.cid = "cl ient/&=?#%+" THEN "c1" ELSE "c2"
  IN Scn("c13/" \o tag \o "/" \o ctag \o "/s" \o ToString(Len(p.sc)) \o "/u" \o ToString(p.url), <<f>>,
         <<Browse("b1", "f1", p.url, Ans0), Logout("b1", "f1", "jar"), App("b1", "f1", "sid:1", (p.url + 3) % 10, Ans0)>>,
         <<"redirects">>)

---------------------------------------------------------------------------
(* C15 (Shapes): request shapes, provider body classes, claim-type classes *)
ReqShapes == {"nilAttributes", "nilRequest", "nilHttp", "nilHeaders", "emptyPath", "noHost", "noScheme", "cookieNoEquals", "cookieEmptyValue",
              "cookieManyEquals", "cookieOnlySemis", "cookieHuge", "cookieBinary", "cookieDuplicate", "cookieUpperHeader", "cookieLoneQuote",
              "cookieOtherLoneQuote", "cookieQuoted", "cookieUnbalancedQuote", "cookieEmptyQuotes", "cookieWhitespace", "cookieCommaSeparated", "pathNoSlash",
              "pathOnlyQuery", "pathOnlyFragment", "pathHuge", "pathBinary", "pathPctBad", "hostWithPort", "hostOdd", "queryFieldSet", "methodOdd",
              "hostPortWord", "hostOpenBracket", "hostUserinfo", "hostCRLF", "hostColons", "hostEmptyPort"}
BodyClasses == {"null", "array", "string", "number", "bool", "empty", "emptyObject", "truncated", "notjson", "wrongTypesNum", "wrongTypesNull",
                "wrongTypesObj", "hugeNumber", "hugeInt", "negative", "floatExp", "nested", "noIdToken", "emptyIdToken", "idTokenTwoDots",
                "idTokenJSONPayloadArray", "idTokenClaimsOddTypes", "idTokenExpHuge", "bom", "dupKeys",
                \* the genuine answer (real tokens, registered as secrets) made undecodable: what an error message may tempt a service to echo
                "minted-expStr", "minted-trailing", "minted-expFloat", "minted-typeArr", "minted-bareClaims", "minted-bareMinimal", "minted-jsonJws"}
C15Space == [what : {"request"}, shape : ReqShapes, kind : {"app", "callback", "logout"}, sess : {"none", "valid"}]
            \cup [what : {"body"}, shape : BodyClasses, kind : {"login", "refresh"}, sess : {"valid"}]
            \cup [what : {"claims"}, shape : {"nonceNonString", "nonceEmpty", "audAbsent", "audNearMiss", "garbage", "nestedJws", "sigStripped"},
                  kind : {"login", "refresh"}, sess : {"v0", "v1", "v2", "v3", "v4"}]

C15Scn(p) ==
  LET f == Flt("f1", TRUE, "memory")
      v == CASE p.sess = "v1" -> 1 [] p.sess = "v2" -> 2 [] p.sess = "v3" -> 3 [] p.sess = "v4" -> 4 [] OTHER -> 0
      odd == IF p.what = "body" THEN [Ans0 EXCEPT !.mode = "body:" \o p.shape] ELSE [Ans0 EXCEPT !.id = p.shape, !.variant = v]
      prep == IF p.sess = "none" THEN <<>> ELSE <<Browse("b1", "f1", 1, Ans0)>>
      shaped == [ (IF p.kind = "app" THEN App("b1", "f1", "jar", 2, Ans0)
                   ELSE IF p.kind = "logout" THEN Logout("b1", "f1", "jar")
                   ELSE Callback("b1", "f1", "jar", "bogus", "bogus", "ok", Ans0)) EXCEPT !.op = "check" ]
      steps ==
        IF p.what = "request"
        THEN prep \o <<[x \in DOMAIN shaped \cup {"shape"} |-> IF x = "shape" THEN p.shape ELSE shaped[x]], App("b1", "f1", "jar", 1, Ans0)>>
        ELSE IF p.kind = "login"
        THEN <<App("b1", "f1", "none", 1, Ans0), Authz("b1", 1), Callback("b1", "f1", "jar", "jar", "jar", "ok", odd), App("b1", "f1", "jar", 1, Ans0)>>
        ELSE <<Browse("b1", "f1", 1, Ans0), Tick(Life + 1), App("b1", "f1", "jar", 1, odd), App("b1", "f1", "jar", 1, Ans0)>>
  IN Scn("c15/" \o p.what \o "/" \o p.shape \o "/" \o p.kind \o "/" \o p.sess, <<f>>, steps, <<"shapes">>)

---------------------------------------------------------------------------
(* C18: two filters, shared or separate stores, renamed cookies, own timeouts *)
C18Space == [stores : {"sharedMemory", "sharedRedis", "separate", "redisDbs", "redisThenMemory", "redisAuth"}, samePrefix : BOOLEAN, how : {"renamed", "asIs"},
             absA : {0, 300}, absB : {0, 100}, firstLogin : {"f1", "f2"}, override : {FALSE}]
            \cup [stores : {"sharedMemory", "redisDbs"}, samePrefix : {FALSE}, how : {"renamed"}, absA : {0, 300}, absB : {0, 100},
                  firstLogin : {"f1", "f2"}, override : {TRUE}]

C18Scn(p) ==
  \* (redisThenMemory: the Redis-backed filter comes first in the file; redisAuth: a Redis server that wants a password, next to the in-memory store)
  LET sa == IF p.stores \in {"sharedRedis", "redisDbs", "redisThenMemory"} THEN "redis" ELSE "memory"
      sb == IF p.stores \in {"sharedMemory", "redisThenMemory"} THEN "memory" ELSE IF p.stores = "redisDbs" THEN "redis#1" ELSE IF p.stores = "redisAuth" THEN "redisauth" ELSE "redis"
      ov(f) == [x \in DOMAIN f \cup {"override"} |-> IF x = "override" THEN p.override ELSE f[x]]
      fa == ov([Flt("f1", TRUE, sa) EXCEPT !.prefix = (IF p.samePrefix THEN "same" ELSE "one"), !.abs = p.absA])
      fb == ov([Flt("f2", TRUE, sb) EXCEPT !.prefix = (IF p.samePrefix THEN "same" ELSE "two"), !.abs = p.absB, !.idp = "B", !.atHeader = "x-at-two",
                                           !.idHeader = "x-id-two", !.idPreamble = "Token"])
      me == p.firstLogin
      other == IF me = "f1" THEN "f2" ELSE "f1"
      cross == [App("b1", other, "jar", 2, Ans0) EXCEPT !.op = "check"]
      crossReq == IF p.how = "renamed"
                  THEN [x \in DOMAIN cross \cup {"cookieAs"} |-> IF x = "cookieAs" THEN me ELSE cross[x]]
                  ELSE cross
      long == [Ans0 EXCEPT !.idLife = 220, !.expiresIn = 220, !.rotate = TRUE]      \* (short enough for refreshes at both filters within the history)
  IN Scn("c18/" \o p.stores \o (IF p.override THEN "/override" ELSE "") \o (IF p.samePrefix THEN "/same/" ELSE "/distinct/") \o p.how \o "/a" \o ToString(p.absA) \o "/b" \o ToString(p.absB) \o "/" \o me,
         <<fa, fb>>,
         <<Browse("b1", me, 1, long), crossReq, App("b1", me, "jar", 1, long),
           Tick(150), App("b1", me, "jar", 1, long), Browse("b2", other, 2, long), Tick(150), App("b2", other, "jar", 2, long),
           Tick(100), App("b1", me, "jar", 1, long), App("b2", other, "jar", 2, long),
           Tick(250), App("b2", other, "jar", 2, long),      \* (a filter without a limit of its own keeps its session: no other filter's limit applies)
           Logout("b1", me, "jar"), Logout("b2", other, "jar")>>,
         <<"isolation">>)

---------------------------------------------------------------------------
Space == CASE Family = "C02" -> C02Space [] Family = "C03" -> C03Space [] Family = "C04" -> C04Space [] Family = "C05" -> C05Space
           [] Family = "C11" -> C11Space [] Family = "C13" -> C13Space [] Family = "C15" -> C15Space [] Family = "C18" -> C18Space

Render(p) == CASE Family = "C02" -> C02Scn(p) [] Family = "C03" -> C03Scn(p) [] Family = "C04" -> C04Scn(p) [] Family = "C05" -> C05Scn(p)
               [] Family = "C11" -> C11Scn(p) [] Family = "C13" -> C13Scn(p) [] Family = "C15" -> C15Scn(p) [] Family = "C18" -> C18Scn(p)

Init == pick \in Space
Next == UNCHANGED pick
Spec == Init /\ [][Next]_pick

Emit == PrintT(<<"SCN", ToJson(Render(pick))>>)
=============================================================================
