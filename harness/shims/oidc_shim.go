//go:build verif

package oidc

import (
	"reflect"
	"strings"
	"sync"
	"time"
	"unsafe"
)

// The probes below read the stores' private state WITHOUT naming any private type, field or method at compile time: a
// refactoring of the stores must not stop the harness from building. Whatever the probe does not recognise is reported
// as unknown (Known / MembersKnown / TimesKnown false) and the trace specifications then judge by results alone.

// VerifProbe is the projected content of one session of a store, read without side effects.
type VerifProbe struct {
	Known        bool // the store is an in-memory store the probe understands (a map of sessions by id)
	Ex           bool
	MembersKnown bool // Auth and Tok are meaningful
	Auth         bool
	Tok          bool
	TimesKnown   bool // Added and Accessed are meaningful
	Added        time.Time
	Accessed     time.Time
	AbsTO        time.Duration
	IdleTO       time.Duration
}

// readable returns a value through which an unexported field can be read (and its address taken).
func readable(v reflect.Value) reflect.Value {
	if !v.CanAddr() {
		return v
	}
	return reflect.NewAt(v.Type(), unsafe.Pointer(v.UnsafeAddr())).Elem()
}

func structOf(s any) (reflect.Value, bool) {
	v := reflect.ValueOf(s)
	for v.IsValid() && (v.Kind() == reflect.Ptr || v.Kind() == reflect.Interface) {
		if v.IsNil() {
			return reflect.Value{}, false
		}
		v = v.Elem()
	}
	return v, v.IsValid() && v.Kind() == reflect.Struct
}

// lockOf finds a mutex among the fields of the store and returns functions to hold it while reading.
func lockOf(st reflect.Value) (lock, unlock func()) {
	for i := 0; i < st.NumField(); i++ {
		f := readable(st.Field(i))
		if !f.CanAddr() {
			continue
		}
		switch m := f.Addr().Interface().(type) {
		case *sync.Mutex:
			return m.Lock, m.Unlock
		case *sync.RWMutex:
			return m.RLock, m.RUnlock
		}
	}
	return func() {}, func() {}
}

func sessionsOf(st reflect.Value) (reflect.Value, bool) {
	for i := 0; i < st.NumField(); i++ {
		f := st.Field(i)
		if f.Kind() == reflect.Map && f.Type().Key().Kind() == reflect.String && strings.Contains(strings.ToLower(st.Type().Field(i).Name), "session") {
			return readable(f), true
		}
	}
	return reflect.Value{}, false
}

func durationField(st reflect.Value, part string) time.Duration {
	for i := 0; i < st.NumField(); i++ {
		if strings.Contains(strings.ToLower(st.Type().Field(i).Name), part) && st.Field(i).Type() == reflect.TypeOf(time.Duration(0)) {
			return time.Duration(st.Field(i).Int())
		}
	}
	return 0
}

func isRedisStore(st reflect.Value) bool {
	return strings.Contains(strings.ToLower(st.Type().Name()), "redis")
}

// VerifProbeMemory reads a session of the in-memory store without touching it.
func VerifProbeMemory(s SessionStore, sid string) VerifProbe {
	st, ok := structOf(s)
	if !ok || isRedisStore(st) {
		return VerifProbe{}
	}
	sessions, ok := sessionsOf(st)
	if !ok {
		return VerifProbe{}
	}
	lock, unlock := lockOf(st)
	lock()
	defer unlock()
	p := VerifProbe{Known: true, AbsTO: durationField(st, "absolute"), IdleTO: durationField(st, "idle")}
	e := sessions.MapIndex(reflect.ValueOf(sid))
	if !e.IsValid() {
		return p
	}
	for e.Kind() == reflect.Ptr || e.Kind() == reflect.Interface {
		if e.IsNil() {
			return p
		}
		e = e.Elem()
	}
	p.Ex = true
	if e.Kind() != reflect.Struct {
		return p
	}
	members, times := 0, 0
	for i := 0; i < e.NumField(); i++ {
		name, f := strings.ToLower(e.Type().Field(i).Name), e.Field(i)
		switch {
		case f.Kind() == reflect.Ptr && strings.Contains(name, "auth"):
			p.Auth, members = !f.IsNil(), members+1
		case f.Kind() == reflect.Ptr && strings.Contains(name, "token"):
			p.Tok, members = !f.IsNil(), members+1
		case f.Type() == reflect.TypeOf(time.Time{}) && strings.Contains(name, "add"):
			p.Added, times = readable(f).Interface().(time.Time), times+1
		case f.Type() == reflect.TypeOf(time.Time{}) && strings.Contains(name, "access"):
			p.Accessed, times = readable(f).Interface().(time.Time), times+1
		}
	}
	p.MembersKnown, p.TimesKnown = members == 2, times == 2
	return p
}

// VerifMemoryLen returns the number of sessions held by the in-memory store (-1 if not a memory store).
func VerifMemoryLen(s SessionStore) int {
	st, ok := structOf(s)
	if !ok || isRedisStore(st) {
		return -1
	}
	sessions, ok := sessionsOf(st)
	if !ok {
		return -1
	}
	lock, unlock := lockOf(st)
	lock()
	defer unlock()
	return sessions.Len()
}

// VerifIsRedis reports whether the store is the Redis implementation, with its timeouts.
func VerifIsRedis(s SessionStore) (bool, time.Duration, time.Duration) {
	st, ok := structOf(s)
	if !ok || !isRedisStore(st) {
		return false, 0, 0
	}
	return true, durationField(st, "absolute"), durationField(st, "idle")
}
