------------------------------ MODULE AuthFlow ------------------------------
(***************************************************************************)
(* Design specification of the OIDC handler of authservice                 *)
(* (internal/authz/oidc.go Process and the rungs it calls), written action *)
(* by action after the code: every action is ONE session-store call, ONE   *)
(* token-endpoint call or ONE key lookup of one in-flight check, which is  *)
(* exactly the grain at which the real handler can be interleaved with     *)
(* other checks, can be hit by a fault, and is gated by the Go harness.    *)
(*                                                                         *)
(* The responsible design choices of the code are constants, so that each  *)
(* invariant can be shown to fail with the code's value and to hold with   *)
(* the other:                                                              *)
(*   WriteCreatesAbsent -- store writes (re-)create a missing session      *)
(*   KeyedByIdOnly      -- a shared store is looked up by session id alone *)
(*                                                                         *)
(* `hist` records the abstract steps taken; terminal behaviours are        *)
(* printed as JSON scenarios which the harness replays against the real    *)
(* ExtAuthZFilter.Check (model -> code), and the recorded trace of that    *)
(* replay is validated by AuthMonitor.tla (code -> model).                 *)
(***************************************************************************)
EXTENDS Integers, Sequences, FiniteSets, TLC, Json, SequencesExt

CONSTANTS
  Checks,             \* identifiers of checks, 1..N (each used once, in order)
  Filters,            \* OIDC filters (chains), e.g. {1} or {1, 2}; they share one store
  MaxSid, MaxTok, MaxCode, MaxTime,
  TokLife,            \* token lifetime in clock units
  MaxFaults,          \* fault budget (store / IdP / key-source faults)
  MaxInFlight,        \* checks in flight at once
  Kinds,              \* request kinds explored, subset of {"app","callback","logout"}
  Attacker,           \* TRUE: requests may carry any issued/forged cookie, state and code
  WriteCreatesAbsent, KeyedByIdOnly,
  NoExpiresInMeansExpired, \* TRUE: a login answer without expires_in is stored as already expired (the defect repaired by 877be3f)
  ClearAbsentFails,   \* TRUE: clearing the login state of an absent session reports an error (Redis), FALSE: succeeds (memory)
  Export              \* TRUE: print terminal behaviours as scenarios

Sids  == 1..MaxSid
Forged == MaxSid + 1          \* a session id the service never issued
NoSid == 0
Codes == 1..MaxCode

NoAuth == [ex |-> FALSE, state |-> 0]
NoTok  == [ex |-> FALSE, gen |-> 0, exp |-> 0, rt |-> 0]
NoSess == [ex |-> FALSE, auth |-> NoAuth, tok |-> NoTok, owner |-> 0]

VARIABLES
  now,
  store,        \* [Sids \cup {Forged} -> session]
  nextSid, nextTok, nextCode,
  codes,        \* [Codes -> [sid, used]] codes minted by the provider, bound to the login of sid
  rtValid,      \* refresh tokens the provider still honours
  minted,       \* [token generation -> session whose login (or refresh) it was minted for]
  pcs, loc, out,
  cookies,      \* session ids issued in a Set-Cookie
  creator,      \* [Sids -> filter] who issued it
  removed,      \* sids removed by a logout check (answered or not)
  dead,         \* sids whose logout has been answered
  faults,
  okLog,        \* ghost: every OK verdict with its justification
  exLog,        \* ghost: every code exchange sent to the provider
  hist          \* history of abstract steps (scenario)

vars == <<now, store, nextSid, nextTok, nextCode, codes, rtValid, minted, pcs, loc, out, cookies, creator, removed, dead, faults, okLog, exLog, hist>>
view == <<now, store, nextSid, nextTok, nextCode, codes, rtValid, minted, pcs, [c \in Checks |-> IF pcs[c] \in {"idle", "done"} THEN 0 ELSE loc[c]], cookies, creator, removed, dead, faults, okLog, exLog>>

StoreRungs == {"logoutRemove", "getTok", "redirRemoveOld", "redirSetAuth", "cbGetAuth", "cbClear", "cbSetTok", "rfGetAuth", "rfSetTok"}
WriteRungs == {"logoutRemove", "redirRemoveOld", "redirSetAuth", "cbClear", "cbSetTok", "rfSetTok"}
IdpRungs   == {"cbExchange", "rfExchange"}
JwksRungs  == {"cbJwks", "rfJwks"}
InFlight   == {c \in Checks : pcs[c] \notin {"idle", "done"}}

CS(c) == "c" \o ToString(c)
SidRef(s)  == IF s = NoSid THEN "none" ELSE IF s = Forged THEN "forged" ELSE "sid:" \o ToString(s)
CodeRef(k) == IF k = 0 THEN "none" ELSE IF k > MaxCode THEN "bogus" ELSE "code:" \o ToString(k)
StRef(s)   == IF s = NoSid THEN "none" ELSE IF s = Forged THEN "bogus" ELSE "sid:" \o ToString(s)
FRef(f)    == "f" \o ToString(f)

StepRec(c, fault, ans, jwks) == [op |-> "step", c |-> CS(c), fault |-> fault, ans |-> ans, jwks |-> jwks]
Log(r) == hist' = Append(hist, r)

goto(c, p)   == pcs' = [pcs EXCEPT ![c] = p]
Finish(c, o) == pcs' = [pcs EXCEPT ![c] = "done"] /\ out' = [out EXCEPT ![c] = o]

\* what a filter sees under a session id
Look(f, s) == IF store[s].ex /\ (KeyedByIdOnly \/ store[s].owner = f) THEN store[s] ELSE NoSess

Init ==
  /\ now = 0
  /\ store = [s \in Sids \cup {Forged} |-> NoSess]
  /\ nextSid = 1 /\ nextTok = 1 /\ nextCode = 1
  /\ codes = [k \in Codes |-> [sid |-> 0, used |-> FALSE]]
  /\ rtValid = {} /\ minted = [g \in 1..MaxTok |-> 0]
  /\ pcs = [c \in Checks |-> "idle"]
  /\ loc = [c \in Checks |-> [kind |-> "none", f |-> 0, sid |-> 0, st |-> 0, code |-> 0, tok |-> NoTok, new |-> NoTok, afterRm |-> FALSE, faulted |-> FALSE, stored |-> 0]]
  /\ out = [c \in Checks |-> "none"]
  /\ cookies = {} /\ creator = [s \in Sids |-> 0] /\ removed = {} /\ dead = {}
  /\ faults = 0 /\ okLog = {} /\ exLog = {} /\ hist = <<>>

---------------------------------------------------------------------------
\* A request arrives.  With Attacker the cookie, state and code are arbitrary; otherwise they are
\* the ones a well-behaved browser would hold.
CookieChoices == IF Attacker THEN cookies \cup {NoSid, Forged} ELSE cookies \cup {NoSid}
StateChoices  == IF Attacker THEN cookies \cup {NoSid, Forged} ELSE cookies
CodeChoices   == IF Attacker THEN {k \in Codes : k < nextCode} \cup {0, MaxCode + 1} ELSE {k \in Codes : k < nextCode}

Start(c, kind, f, sid, st, code) ==
  /\ pcs[c] = "idle"
  /\ \A d \in Checks : d < c => pcs[d] # "idle"      \* check ids are used in order (they are interchangeable)
  /\ Cardinality(InFlight) < MaxInFlight
  /\ kind \in Kinds /\ f \in Filters /\ sid \in CookieChoices
  /\ IF kind = "callback" THEN st \in StateChoices /\ code \in CodeChoices ELSE st = 0 /\ code = 0
  /\ loc' = [loc EXCEPT ![c] = [kind |-> kind, f |-> f, sid |-> sid, st |-> st, code |-> code, tok |-> NoTok, new |-> NoTok,
                                 afterRm |-> FALSE, faulted |-> FALSE, stored |-> 0]]
  /\ IF kind = "logout" THEN (IF sid = NoSid THEN Finish(c, "endsession") ELSE goto(c, "logoutRemove") /\ UNCHANGED out)
     ELSE IF sid = NoSid THEN goto(c, "redirSetAuth") /\ UNCHANGED out
     ELSE IF kind = "callback"
          THEN (IF st = NoSid \/ code = 0 THEN Finish(c, "deny") ELSE goto(c, "cbGetAuth") /\ UNCHANGED out)
          ELSE goto(c, "getTok") /\ UNCHANGED out
  /\ Log([op |-> "start", c |-> CS(c), kind |-> kind, f |-> FRef(f), cookie |-> SidRef(sid), st |-> StRef(st), code |-> CodeRef(code)])
  /\ UNCHANGED <<now, store, nextSid, nextTok, nextCode, codes, rtValid, minted, cookies, creator, removed, dead, faults, okLog, exLog>>

\* The browser visits the authorization endpoint with the redirect it got for session s: a code bound to that login is minted.
Authorize(s) ==
  /\ s \in cookies /\ nextCode <= MaxCode
  /\ codes' = [codes EXCEPT ![nextCode] = [sid |-> s, used |-> FALSE]]
  /\ nextCode' = nextCode + 1
  /\ Log([op |-> "authz", sid |-> s])
  /\ UNCHANGED <<now, store, nextSid, nextTok, rtValid, minted, pcs, loc, out, cookies, creator, removed, dead, faults, okLog, exLog>>

Tick ==
  /\ now < MaxTime /\ now' = now + 1
  /\ Log([op |-> "tick", d |-> 1])
  /\ UNCHANGED <<store, nextSid, nextTok, nextCode, codes, rtValid, minted, pcs, loc, out, cookies, creator, removed, dead, faults, okLog, exLog>>

---------------------------------------------------------------------------
\* Store rungs.  Each is one SessionStore call.
mark(c) == [loc EXCEPT ![c].afterRm = (loc[c].sid \in removed)]

LogoutRemove(c) ==
  /\ pcs[c] = "logoutRemove"
  /\ store' = [store EXCEPT ![loc[c].sid] = NoSess]
  /\ removed' = removed \cup {loc[c].sid}
  /\ dead' = dead \cup {loc[c].sid}                \* answered in the same step: the answer follows without another gate
  /\ Finish(c, "endsession")
  /\ Log(StepRec(c, "none", "", ""))
  /\ UNCHANGED <<now, nextSid, nextTok, nextCode, codes, rtValid, minted, loc, cookies, creator, faults, okLog, exLog>>

GetTok(c) ==
  /\ pcs[c] = "getTok"
  /\ LET s == Look(loc[c].f, loc[c].sid) IN
       IF ~(s.ex /\ s.tok.ex) THEN goto(c, "redirRemoveOld") /\ loc' = mark(c) /\ UNCHANGED <<out, okLog>>
       ELSE IF s.tok.exp >= now
            THEN /\ Finish(c, "ok") /\ loc' = mark(c)
                 /\ okLog' = okLog \cup {[why |-> "fresh", sid |-> loc[c].sid, f |-> loc[c].f,
                                          afterLogout |-> (loc[c].sid \in dead /\ loc[c].sid \in removed), faulted |-> loc[c].faulted]}
            ELSE IF s.tok.rt = 0 THEN goto(c, "redirRemoveOld") /\ loc' = mark(c) /\ UNCHANGED <<out, okLog>>
            ELSE goto(c, "rfExchange") /\ loc' = [mark(c) EXCEPT ![c].tok = s.tok] /\ UNCHANGED <<out, okLog>>
  /\ Log(StepRec(c, "none", "", ""))
  /\ UNCHANGED <<now, store, nextSid, nextTok, nextCode, codes, rtValid, minted, cookies, creator, removed, dead, faults, exLog>>

RedirRemoveOld(c) ==
  /\ pcs[c] = "redirRemoveOld"
  /\ store' = [store EXCEPT ![loc[c].sid] = NoSess]
  /\ goto(c, "redirSetAuth") /\ loc' = mark(c)
  /\ Log(StepRec(c, "none", "", ""))
  /\ UNCHANGED <<now, nextSid, nextTok, nextCode, codes, rtValid, minted, out, cookies, creator, removed, dead, faults, okLog, exLog>>

RedirSetAuth(c) ==
  /\ pcs[c] = "redirSetAuth" /\ nextSid <= MaxSid
  /\ store' = [store EXCEPT ![nextSid] = [ex |-> TRUE, auth |-> [ex |-> TRUE, state |-> nextSid], tok |-> @.tok, owner |-> loc[c].f]]
  /\ cookies' = cookies \cup {nextSid}
  /\ creator' = [creator EXCEPT ![nextSid] = loc[c].f]
  /\ nextSid' = nextSid + 1
  /\ Finish(c, "authorize")
  /\ Log(StepRec(c, "none", "", ""))
  /\ UNCHANGED <<now, nextTok, nextCode, codes, rtValid, minted, loc, removed, dead, faults, okLog, exLog>>

CbGetAuth(c) ==
  /\ pcs[c] = "cbGetAuth"
  /\ LET s == Look(loc[c].f, loc[c].sid) IN
       IF ~(s.ex /\ s.auth.ex) THEN Finish(c, "deny")
       ELSE IF s.auth.state # loc[c].st THEN Finish(c, "deny")
       ELSE goto(c, "cbExchange") /\ UNCHANGED out
  /\ loc' = mark(c)
  /\ Log(StepRec(c, "none", "", ""))
  /\ UNCHANGED <<now, store, nextSid, nextTok, nextCode, codes, rtValid, minted, cookies, creator, removed, dead, faults, okLog, exLog>>

\* The provider honours a code once, and only with the verifier of the login it was minted for.  The handler
\* sends the verifier stored under the presented session, so "the login of the code" must be that session.
CodeGood(c) == loc[c].code \in Codes /\ codes[loc[c].code].sid = loc[c].sid /\ ~codes[loc[c].code].used

CbExchange(c, ans) ==
  /\ pcs[c] = "cbExchange" /\ ans \in {"ok", "okNoRt", "okNoExpNoRt", "failBefore", "failAfter", "badToken"}
  /\ ans \in {"failBefore", "failAfter", "badToken"} => faults < MaxFaults
  /\ exLog' = exLog \cup {[sid |-> loc[c].sid, st |-> loc[c].st, f |-> loc[c].f]}
  /\ IF ans = "failBefore" \/ ~CodeGood(c)
     THEN /\ Finish(c, "deny") /\ UNCHANGED <<codes, nextTok, rtValid, minted>>
          /\ loc' = [loc EXCEPT ![c].faulted = TRUE]
          /\ faults' = IF ans = "failBefore" THEN faults + 1 ELSE faults
     ELSE /\ codes' = [codes EXCEPT ![loc[c].code].used = TRUE]
          /\ IF ans \in {"failAfter", "badToken"}
             THEN /\ Finish(c, "deny") /\ faults' = faults + 1 /\ UNCHANGED <<nextTok, rtValid, minted>>
                  /\ loc' = [loc EXCEPT ![c].faulted = TRUE]
             ELSE /\ nextTok <= MaxTok
                  /\ loc' = [loc EXCEPT ![c].new = [ex |-> TRUE, gen |-> nextTok,
                                                   exp |-> IF ans = "okNoExpNoRt" /\ NoExpiresInMeansExpired THEN now - 1 ELSE now + TokLife,
                                                   rt |-> IF ans = "ok" THEN nextTok ELSE 0]]
                  /\ rtValid' = IF ans = "ok" THEN rtValid \cup {nextTok} ELSE rtValid
                  /\ minted' = [minted EXCEPT ![nextTok] = codes[loc[c].code].sid]
                  /\ nextTok' = nextTok + 1 /\ goto(c, "cbJwks") /\ UNCHANGED <<out, faults>>
  /\ Log(StepRec(c, "none", ans, ""))
  /\ UNCHANGED <<now, store, nextSid, nextCode, cookies, creator, removed, dead, okLog>>

CbJwks(c, ok) ==
  /\ pcs[c] = "cbJwks"
  /\ ~ok => faults < MaxFaults
  /\ IF ok THEN goto(c, "cbClear") /\ UNCHANGED <<out, faults, loc>>
     ELSE Finish(c, "deny") /\ faults' = faults + 1 /\ loc' = [loc EXCEPT ![c].faulted = TRUE]
  /\ Log(StepRec(c, "none", "", IF ok THEN "ok" ELSE "fail"))
  /\ UNCHANGED <<now, store, nextSid, nextTok, nextCode, codes, rtValid, minted, cookies, creator, removed, dead, okLog, exLog>>

CbClear(c) ==
  /\ pcs[c] = "cbClear"
  /\ store' = [store EXCEPT ![loc[c].sid] = IF @.ex THEN [@ EXCEPT !.auth = NoAuth] ELSE @]
  /\ IF ClearAbsentFails /\ ~store[loc[c].sid].ex
     THEN Finish(c, "sessionError") /\ loc' = mark(c)          \* the named deviation of the Redis store
     ELSE goto(c, "cbSetTok") /\ loc' = mark(c) /\ UNCHANGED out
  /\ Log(StepRec(c, "none", "", ""))
  /\ UNCHANGED <<now, nextSid, nextTok, nextCode, codes, rtValid, minted, cookies, creator, removed, dead, faults, okLog, exLog>>

Write(c) == [store EXCEPT ![loc[c].sid] =
               IF @.ex THEN [@ EXCEPT !.tok = loc[c].new]
               ELSE IF WriteCreatesAbsent THEN [ex |-> TRUE, auth |-> NoAuth, tok |-> loc[c].new, owner |-> loc[c].f]
               ELSE @]

CbSetTok(c) ==
  /\ pcs[c] = "cbSetTok"
  /\ store' = Write(c)
  /\ IF ~WriteCreatesAbsent /\ ~store[loc[c].sid].ex     \* the alternative design: write only if present, else a session error
     THEN Finish(c, "sessionError") /\ loc' = mark(c)
     ELSE Finish(c, "app") /\ loc' = [mark(c) EXCEPT ![c].stored = loc[c].new.gen]
  /\ Log(StepRec(c, "none", "", ""))
  /\ UNCHANGED <<now, nextSid, nextTok, nextCode, codes, rtValid, minted, cookies, creator, removed, dead, faults, okLog, exLog>>

RfExchange(c, ans) ==
  /\ pcs[c] = "rfExchange" /\ ans \in {"ok", "okRotate", "failBefore", "failAfter", "badToken"}
  /\ ans \in {"failBefore", "failAfter", "badToken"} => faults < MaxFaults
  /\ IF ans = "failBefore" \/ loc[c].tok.rt \notin rtValid
     THEN /\ goto(c, "redirRemoveOld") /\ UNCHANGED <<nextTok, rtValid, minted>>
          /\ loc' = [loc EXCEPT ![c].faulted = TRUE]
          /\ faults' = IF ans = "failBefore" THEN faults + 1 ELSE faults
     ELSE IF ans = "failAfter"
     THEN /\ goto(c, "redirRemoveOld") /\ faults' = faults + 1 /\ UNCHANGED <<nextTok, rtValid, minted>>
          /\ loc' = [loc EXCEPT ![c].faulted = TRUE]
     ELSE IF ans = "badToken"       \* the answer arrives, is merged, the login state is read, and only then validation fails
     THEN /\ goto(c, "rfGetAuth") /\ faults' = faults + 1 /\ UNCHANGED <<nextTok, rtValid, minted>>
          /\ loc' = [loc EXCEPT ![c].faulted = TRUE, ![c].new = [ex |-> FALSE, gen |-> -1, exp |-> 0, rt |-> 0]]
     ELSE /\ nextTok <= MaxTok
          /\ loc' = [loc EXCEPT ![c].new = [ex |-> TRUE, gen |-> nextTok, exp |-> now + TokLife,
                                           rt |-> IF ans = "okRotate" THEN nextTok ELSE loc[c].tok.rt]]
          /\ rtValid' = IF ans = "okRotate" THEN (rtValid \ {loc[c].tok.rt}) \cup {nextTok} ELSE rtValid
          /\ minted' = [minted EXCEPT ![nextTok] = minted[loc[c].tok.gen]]
          /\ nextTok' = nextTok + 1 /\ goto(c, "rfGetAuth") /\ UNCHANGED faults
  /\ Log(StepRec(c, "none", ans, ""))
  /\ UNCHANGED <<now, store, nextSid, nextCode, codes, out, cookies, creator, removed, dead, okLog, exLog>>

RfGetAuth(c) ==
  /\ pcs[c] = "rfGetAuth"
  /\ (IF loc[c].new.gen = -1 THEN goto(c, "redirRemoveOld") ELSE goto(c, "rfJwks")) /\ loc' = mark(c)
  /\ Log(StepRec(c, "none", "", ""))
  /\ UNCHANGED <<now, store, nextSid, nextTok, nextCode, codes, rtValid, minted, out, cookies, creator, removed, dead, faults, okLog, exLog>>

RfJwks(c, ok) ==
  /\ pcs[c] = "rfJwks"
  /\ ~ok => faults < MaxFaults
  /\ IF ok THEN goto(c, "rfSetTok") /\ UNCHANGED <<faults, loc>>
     ELSE goto(c, "redirRemoveOld") /\ faults' = faults + 1 /\ loc' = [loc EXCEPT ![c].faulted = TRUE]
  /\ Log(StepRec(c, "none", "", IF ok THEN "ok" ELSE "fail"))
  /\ UNCHANGED <<now, store, nextSid, nextTok, nextCode, codes, rtValid, minted, out, cookies, creator, removed, dead, okLog, exLog>>

RfSetTok(c) ==
  /\ pcs[c] = "rfSetTok"
  /\ store' = Write(c)
  /\ IF ~WriteCreatesAbsent /\ ~store[loc[c].sid].ex
     THEN Finish(c, "sessionError") /\ loc' = mark(c) /\ UNCHANGED okLog
     ELSE /\ Finish(c, "ok") /\ loc' = [mark(c) EXCEPT ![c].stored = loc[c].new.gen]
          /\ okLog' = okLog \cup {[why |-> "refreshed", sid |-> loc[c].sid, f |-> loc[c].f,
                                   afterLogout |-> (loc[c].sid \in dead), faulted |-> loc[c].faulted]}
  /\ Log(StepRec(c, "none", "", ""))
  /\ UNCHANGED <<now, nextSid, nextTok, nextCode, codes, rtValid, minted, cookies, creator, removed, dead, faults, exLog>>

\* A session-store call fails: before taking effect, or (writes only) after it.
StoreFail(c, mode) ==
  /\ pcs[c] \in StoreRungs /\ faults < MaxFaults /\ mode \in {"before", "after"}
  /\ mode = "after" => pcs[c] \in WriteRungs \ {"redirSetAuth"}   \* after-effect faults on SetAuthorizationState: random tier only
  /\ faults' = faults + 1
  /\ store' = IF mode = "before" THEN store
              ELSE CASE pcs[c] \in {"logoutRemove", "redirRemoveOld"} -> [store EXCEPT ![loc[c].sid] = NoSess]
                     [] pcs[c] = "cbClear" -> [store EXCEPT ![loc[c].sid] = IF @.ex THEN [@ EXCEPT !.auth = NoAuth] ELSE @]
                     [] pcs[c] \in {"cbSetTok", "rfSetTok"} -> Write(c)
  /\ removed' = IF mode = "after" /\ pcs[c] = "logoutRemove" THEN removed \cup {loc[c].sid} ELSE removed
  /\ loc' = [mark(c) EXCEPT ![c].faulted = TRUE]
  \* the refresh path treats a failed GetAuthorizationState as a failed refresh and re-authenticates
  /\ IF pcs[c] = "rfGetAuth" THEN goto(c, "redirRemoveOld") /\ UNCHANGED out ELSE Finish(c, "sessionError")
  /\ Log(StepRec(c, mode, "", ""))
  /\ UNCHANGED <<now, nextSid, nextTok, nextCode, codes, rtValid, minted, cookies, creator, dead, okLog, exLog>>

Step(c) ==
  \/ LogoutRemove(c) \/ GetTok(c) \/ RedirRemoveOld(c) \/ RedirSetAuth(c)
  \/ CbGetAuth(c) \/ CbClear(c) \/ CbSetTok(c) \/ RfGetAuth(c) \/ RfSetTok(c)
  \/ \E a \in {"ok", "okNoRt", "okNoExpNoRt", "failBefore", "failAfter", "badToken"} : CbExchange(c, a)
  \/ \E a \in {"ok", "okRotate", "failBefore", "failAfter", "badToken"} : RfExchange(c, a)
  \/ \E ok \in BOOLEAN : CbJwks(c, ok) \/ RfJwks(c, ok)
  \/ \E m \in {"before", "after"} : StoreFail(c, m)

Next ==
  \/ \E c \in Checks, kind \in Kinds, f \in Filters, sid \in Sids \cup {NoSid, Forged},
        st \in Sids \cup {NoSid, Forged}, code \in 0..(MaxCode + 1) : Start(c, kind, f, sid, st, code)
  \/ \E c \in Checks : Step(c)
  \/ \E s \in Sids : Authorize(s)
  \/ Tick

Spec == Init /\ [][Next]_vars

---------------------------------------------------------------------------
(* Invariants -- the design-level form of the listed properties *)

TypeOK ==
  /\ now \in 0..MaxTime /\ faults \in 0..MaxFaults
  /\ \A c \in Checks : pcs[c] \in {"idle", "done"} \cup StoreRungs \cup IdpRungs \cup JwksRungs

\* C01: an OK verdict is justified and is never produced by a check that met a fault
OkJustified  == \A c \in Checks : out[c] = "ok" => okLog # {}
FaultNeverOk == \A e \in okLog : ~e.faulted
\* C05: tokens only under ids the service issued
TokensOnlyUnderIssued == \A s \in Sids \cup {Forged} : store[s].tok.ex => s \in cookies
\* C04: a code reaches the provider only from a callback whose state matches the presented session's login
ExchangeBound == \A e \in exLog : e.st = e.sid /\ e.sid \in cookies
\* C04: the tokens held under a session were minted for the login of that very session
TokensFromOwnLogin == \A s \in Sids \cup {Forged} : store[s].tok.ex => minted[store[s].tok.gen] = s
\* C09: logout is final (violated when WriteCreatesAbsent: an in-flight write re-creates the session)
LoggedOutStaysDead == \A s \in dead : ~store[s].ex
NoOkAfterLogout    == \A e \in okLog : ~e.afterLogout
\* C18: a session is honoured only by the filter that created it (violated when KeyedByIdOnly)
HonouredOnlyByCreator == \A e \in okLog : creator[e.sid] = e.f


---------------------------------------------------------------------------
(* Scenario export: a behaviour is complete when nothing is in flight; it is printed once. *)
Outs == [c \in {CS(c) : c \in {d \in Checks : pcs[d] = "done"}} |-> out[CHOOSE d \in Checks : CS(d) = c]]

Quiescent == InFlight = {} /\ \E c \in Checks : pcs[c] = "done"

ExportInv ==
  (Export /\ Quiescent) =>
     PrintT(<<"SCN", ToJson([steps |-> hist, out |-> Outs,
                              viol |-> [dead |-> ~LoggedOutStaysDead, okAfterLogout |-> ~NoOkAfterLogout,
                                        creator |-> ~HonouredOnlyByCreator]])>>)
=============================================================================
