--------------------------- MODULE AuthMonitor ---------------------------
(***************************************************************************)
(* Layer-A trace specification for the system driver (DESIGN.md 3.4-3.5).  *)
(*                                                                         *)
(* The recorded NDJSON trace of real ExtAuthZFilter.Check executions is    *)
(* consumed one event per step.  Ghost state (the identity provider's      *)
(* ledger, the clock, session ids issued / presented / logged out, the     *)
(* login values sent in every authorize redirect) is advanced from the     *)
(* logged events; the handler itself is a black box whose answers are      *)
(* judged by the monitors below.  A monitor that fails does not stop TLC:  *)
(* it adds a tagged record to `viol`, which the final state serialises.    *)
(* Every monitor looks only at the judged check's own events (with the     *)
(* results the real store returned) and at ghosts that are pure functions  *)
(* of earlier events -- never at a reconstructed session map.              *)
(***************************************************************************)
EXTENDS Integers, Sequences, FiniteSets, TLC, Json, SequencesExt, Functions

CONSTANTS TraceFile, OutFile

Trace == ndJsonDeserialize(TraceFile)

VARIABLES
  l,          \* next trace position
  now,        \* virtual clock (seconds)
  sc,         \* current scenario id
  flt,        \* filter name -> filter configuration (from the reset event)
  logins,     \* sid -> login ghost [f, state, nonce, challenge, url, at] taken from the authorize answer that issued sid
  presented,  \* sids seen in requests
  consumed,   \* sids whose login completed (callback answered with the application redirect, or its tokens reached the store)
  dead,       \* sid -> trace index of the RemoveSession of an answered logout
  codes,      \* code -> [sid, challenge, clientId, redirectUri, used]
  idtok,      \* id-token symbol -> ground truth [sigOK, audOK, nonce, exp, class]
  rtl,        \* refresh-token symbol -> [family, delivered]
  latest,     \* family -> most recently delivered refresh token
  lastUse,    \* sid -> time of the last answered check that carried it
  stored,     \* sids under which a SetTokenResponse succeeded
  gone,       \* sids on which a RemoveSession reached the store, or that a faulty store call touched
  bound,      \* sid -> id-token symbols that a SetTokenResponse stored under it
  lastStored, \* sid -> the tokens most recently stored under it (absent while unknown: after a faulty write or a removal)
  attok,      \* access-token symbol -> ground-truth expiry (-1 = the provider did not say)
  chk,        \* check number -> [req, evs] for checks in flight
  br,         \* browser -> [active, authorizeAnswers, okSeen] for C03 flows
  viol,       \* accumulated violations
  drift,      \* Layer-B expectation mismatches (spec drift, not violations)
  fired       \* monitor name -> how often its antecedent was true (anti-vacuity)

vars == <<l, now, sc, flt, logins, presented, consumed, dead, codes, idtok, rtl, latest, lastUse, stored, gone, bound, lastStored, attok, chk, br, viol, drift, fired>>

---------------------------------------------------------------------------
Put(f, k, v) == [x \in (DOMAIN f) \cup {k} |-> IF x = k THEN v ELSE f[x]]
Del(f, k)    == [x \in (DOMAIN f) \ {k} |-> f[x]]
Has(f, k)    == k \in DOMAIN f
RangeS(s)    == {s[i] : i \in DOMAIN s}
Bump(f, k)   == IF k \in DOMAIN f THEN [f EXCEPT ![k] = @ + 1] ELSE Put(f, k, 1)
BumpIf(f, c, k) == IF c THEN Bump(f, k) ELSE f

V(p, m, cause, n) == [p |-> p, m |-> m, cause |-> cause, n |-> n, sc |-> sc, at |-> l]

\* The events of a check are kept as records [e, at, i]: the event, the clock and the trace index.
Evs(n)      == IF Has(chk, n) THEN chk[n].evs ELSE <<>>
Req(n)      == chk[n].req
StoreEvs(n) == SelectSeq(Evs(n), LAMBDA x : x.e.ev = "store")
IdpEvs(n)   == SelectSeq(Evs(n), LAMBDA x : x.e.ev = "idp")
JwksEvs(n)  == SelectSeq(Evs(n), LAMBDA x : x.e.ev = "jwks")
Ops(n, op)  == SelectSeq(Evs(n), LAMBDA x : x.e.ev = "store" /\ x.e.op = op)

Took(x)  == x.e.fault # "before"                        \* the store call reached the real store
Good(x)  == ~x.e.err                                     \* ... and reported success to the handler

Outcome(r) ==
  IF r.kind = "ok" THEN "ok"
  ELSE IF r.kind \in {"panic", "grpcError", "nilResponse", "bare"} THEN r.kind
  ELSE IF r.loc.ex /\ r.loc.kind = "authorize" THEN "authorize"
  ELSE IF r.loc.ex /\ r.loc.kind = "endsession" THEN "endsession"
  ELSE IF r.loc.ex /\ r.loc.kind = "url" THEN "app"
  ELSE IF r.body = "sessionError" THEN "sessionError"
  ELSE "deny"

IdKnown(id) == Has(idtok, id)

\* Freshness exactly as the property states it: unexpired at the time of the read.
Fresh(T, f, t) ==
  /\ IdKnown(T.id) /\ idtok[T.id].exp >= t
  /\ (flt[f].accessFwd /\ T.at # "none" /\ T.atExpKnown) => T.atExp >= t

---------------------------------------------------------------------------
(* C01 -- fail closed *)

FaultyCheck(n) ==
  \/ \E i \in DOMAIN Evs(n) : Evs(n)[i].e.ev = "store" /\ Evs(n)[i].e.err
  \* a Redis command of the call failed, whether or not the store reported it: it is a failure of the session store all the same
  \/ \E i \in DOMAIN Evs(n) : Evs(n)[i].e.ev = "store" /\ Evs(n)[i].e.cmdFaultHit
  \/ \E i \in DOMAIN Evs(n) : Evs(n)[i].e.ev = "jwks" /\ Evs(n)[i].e.res = "err"
  \/ \E i \in DOMAIN Evs(n) : Evs(n)[i].e.ev = "idp" /\ Evs(n)[i].e.answer \in {"fail", "failAfter"}

\* some store call of the check failed (after which the service may not be able to do anything more with the store)
StoreFaulted(n) == \E i \in DOMAIN Evs(n) : Evs(n)[i].e.ev = "store" /\ (Evs(n)[i].e.err \/ Evs(n)[i].e.cmdFaultHit)
\* ... at a call other than the write of a new login state: on the ladder that write comes AFTER the removal of the stale
\* session, so a failure there excuses no missing removal
StoreFaultedBeforeNewLogin(n) == \E i \in DOMAIN Evs(n) : Evs(n)[i].e.ev = "store" /\ Evs(n)[i].e.op # "SetAuthorizationState"
                                                          /\ (Evs(n)[i].e.err \/ Evs(n)[i].e.cmdFaultHit)

\* the reads of the presented session that returned tokens
TokReads(n) == SelectSeq(Ops(n, "GetTokenResponse"), LAMBDA x : x.e.sid = Req(n).cookie /\ Good(x) /\ x.e.res.ex)

\* successful refresh exchanges followed by a successful write under the presented session
RefreshJustifies(n) ==
  \E i, j \in DOMAIN Evs(n) :
     /\ i < j
     /\ Evs(n)[i].e.ev = "idp" /\ Evs(n)[i].e.grant = "refresh_token" /\ Evs(n)[i].e.answer = "ok"
     /\ Evs(n)[j].e.ev = "store" /\ Evs(n)[j].e.op = "SetTokenResponse" /\ Evs(n)[j].e.sid = Req(n).cookie
     /\ Took(Evs(n)[j]) /\ Good(Evs(n)[j])

C01Causes(n, r) ==
  IF Outcome(r) # "ok" THEN {}
  ELSE
    (IF Req(n).cookie = "none" THEN {"ok-without-cookie"} ELSE {})
    \cup (IF FaultyCheck(n) THEN {"ok-despite-fault"} ELSE {})
    \cup (IF Req(n).kind # "app" THEN {"ok-on-" \o Req(n).kind} ELSE {})
    \cup (IF Req(n).cookie # "none" /\ Len(TokReads(n)) = 0 THEN {"ok-without-token-read"} ELSE {})
    \cup (IF Len(TokReads(n)) > 0 /\ ~RefreshJustifies(n)
             /\ ~Fresh(TokReads(n)[1].e.res, r.f, TokReads(n)[1].at)
          THEN {"ok-with-expired-tokens"} ELSE {})
    \cup (IF Len(TokReads(n)) > 0 /\ (~Has(bound, Req(n).cookie) \/ TokReads(n)[1].e.res.id \notin bound[Req(n).cookie])
          THEN {"ok-with-tokens-never-stored"} ELSE {})

---------------------------------------------------------------------------
(* C02 -- only validated IdP tokens are bound and forwarded *)

\* judged at every SetTokenResponse that reached the store
OkIdpEvs(n) == SelectSeq(IdpEvs(n), LAMBDA x : x.e.status = 200 /\ x.e.issued.ex)

C02StoreCauses(n, e) ==
  IF ~(e.op = "SetTokenResponse" /\ e.fault # "before") THEN {}
  ELSE
    LET id    == e.arg.id
        iss   == SelectSeq(OkIdpEvs(n), LAMBDA x : x.e.issued.id.ex /\ x.e.issued.id.sym = id)
        kept  == Len(TokReads(n)) > 0 /\ TokReads(n)[1].e.res.id = id /\ Len(OkIdpEvs(n)) > 0
                 /\ OkIdpEvs(n)[1].e.grant = "refresh_token"
        login == Len(iss) > 0 /\ iss[1].e.grant = "authorization_code"
    IN  IF Len(iss) = 0 /\ ~kept THEN {"stored-token-not-from-this-exchange"}
        \* a token kept by a refresh is bound again with the merged result: it must (still) verify under the key set configured now
        ELSE IF Len(iss) = 0 THEN (IF Has(idtok, id) /\ idtok[id].signedBy \in {"k12", "k3"} /\ idtok[id].signedBy # OkIdpEvs(n)[1].e.keySetNow
                                   THEN {"kept-token-does-not-verify-under-the-current-key-set"} ELSE {})
        ELSE (IF ~iss[1].e.issued.id.sigOK THEN {"bad-signature:" \o iss[1].e.issued.id.class} ELSE {})
          \cup (IF ~iss[1].e.issued.id.audOK THEN {"bad-audience:" \o iss[1].e.issued.id.class} ELSE {})
          \cup (IF login /\ (~Has(logins, e.sid) \/ iss[1].e.issued.id.nonce # logins[e.sid].nonce)
                THEN {"bad-nonce:" \o iss[1].e.issued.id.class} ELSE {})

\* the tokens an OK answer must forward: the ones written by this check, else the ones read
BoundTokens(n) ==
  LET w == SelectSeq(Ops(n, "SetTokenResponse"), LAMBDA x : x.e.sid = Req(n).cookie /\ Took(x) /\ Good(x))
  IN  IF Len(w) > 0 THEN w[Len(w)].e.arg
      ELSE IF Len(TokReads(n)) > 0 THEN TokReads(n)[1].e.res
      ELSE [ex |-> FALSE, id |-> "none", at |-> "none", rt |-> "none", atExp |-> 0, atExpKnown |-> FALSE]

ExpectedUpstream(f, T) ==
  LET c == flt[f]
      idh == {[kl |-> c.idHeaderL, pre |-> c.idPreamble, tok |-> T.id, append |-> FALSE]}      \* (header names compare without case)
  IN  IF c.accessFwd /\ T.at # "none"
      THEN idh \cup {[kl |-> c.atHeaderL, pre |-> c.atPreamble, tok |-> T.at, append |-> FALSE]}
      ELSE idh
UpProj(u) == [kl |-> u.kl, pre |-> u.pre, tok |-> u.tok, append |-> u.append]

C02RespCauses(n, r) ==
  IF Outcome(r) # "ok" \/ ~BoundTokens(n).ex THEN {}
  ELSE (IF {UpProj(r.upstream[i]) : i \in DOMAIN r.upstream} # ExpectedUpstream(r.f, BoundTokens(n)) THEN {"forwarded-not-equal-bound"} ELSE {})
       \* whatever is forwarded must have been stored under the presented session by a SetTokenResponse
       \cup (IF ~Has(bound, Req(n).cookie) \/ BoundTokens(n).id \notin bound[Req(n).cookie] THEN {"forwarded-token-never-bound"} ELSE {})

---------------------------------------------------------------------------
(* C04 -- login-flow binding *)

C04IdpCauses(n, e) ==
  IF e.grant # "authorization_code" THEN {}
  ELSE
    LET sid == Req(n).cookie
        has == Has(logins, sid)
    IN  (IF Req(n).kind # "callback" THEN {"exchange-outside-callback"} ELSE {})
        \cup (IF ~has THEN {"exchange-without-pending-login"} ELSE {})
        \cup (IF has /\ sid \in consumed THEN {"second-exchange-after-login-completed"} ELSE {})
        \cup (IF has /\ logins[sid].state \notin RangeS(Req(n).states) THEN {"state-mismatch"} ELSE {})
        \cup (IF has /\ ("S256(" \o e.verifier \o ")") # logins[sid].challenge THEN {"wrong-verifier"} ELSE {})
        \cup (IF e.redirectUri # ("cb:" \o e.f) THEN {"wrong-redirect-uri"} ELSE {})
        \cup (IF e.clientId # ("cid:" \o e.f) \/ e.clientSecret # ("sec:" \o e.f) \/ e.authKind # "basic"
              THEN {"wrong-client-auth"} ELSE {})
        \cup (IF Req(n).codes = <<>> \/ e.code # Req(n).codes[1] THEN {"code-not-from-request"} ELSE {})

\* replaying a completed callback must not yield an authenticated session either
C04StoreCauses(n, e) ==
  IF e.op = "SetTokenResponse" /\ e.fault # "before" /\ Req(n).kind = "callback" /\ e.sid \in consumed
  THEN {"tokens-stored-by-replayed-callback"} ELSE {}

---------------------------------------------------------------------------
(* C05 -- session id renewal and cookie protection *)

CookieAttrsOK(ck) ==
  LET a == RangeS(ck.attrsL)      \* attribute names are case-insensitive (RFC 6265): compared in lower case, blanks removed
  IN  /\ "path=/" \in a
      /\ "secure" \in a /\ "httponly" \in a
      /\ ("samesite=lax" \in a \/ "samesite=strict" \in a)
      /\ ~ck.hasDomain

IssuedBefore == DOMAIN logins

C05RespCauses(n, r) ==
  LET own == SelectSeq(r.setCookie, LAMBDA ck : ck.name = ("own:" \o r.f))
      oth == SelectSeq(r.setCookie, LAMBDA ck : ck.name # ("own:" \o r.f))
      old == Req(n).cookie
      sets == Ops(n, "SetAuthorizationState")
      \* removals of the presented session that took effect (the store's projected state says the session is gone)
      rems == SelectSeq(Ops(n, "RemoveSession"), LAMBDA x : x.e.sid = old /\ Took(x) /\ Good(x) /\ (x.e.probe.known => ~x.e.probe.ex))
  IN
    (IF Len(oth) > 0 THEN {"cookie-with-foreign-name"} ELSE {})
    \cup (IF \E i \in DOMAIN r.setCookie : ~CookieAttrsOK(r.setCookie[i]) THEN {"cookie-attributes"} ELSE {})
    \cup (IF \E i \in DOMAIN own : ~own[i].hostPrefix THEN {"cookie-name-prefix"} ELSE {})
    \cup (IF Outcome(r) = "authorize"
          THEN (IF Len(own) # 1 \/ own[1].deleted THEN {"authorize-without-session-cookie"}
                ELSE (IF own[1].sid \in presented \/ own[1].sid \in IssuedBefore \/ ~own[1].fresh
                      THEN {"session-id-not-fresh"} ELSE {})
                  \cup (IF Len(sets) = 0 \/ sets[Len(sets)].e.sid # own[1].sid THEN {"cookie-not-the-stored-session"} ELSE {}))
               \cup (IF old # "none" /\ (Len(rems) = 0 \/ Len(sets) = 0 \/ rems[1].i > sets[Len(sets)].i)
                     THEN {"old-session-not-destroyed"} ELSE {})
          ELSE {})
    \cup (IF Outcome(r) = "endsession" /\ (Len(own) # 1 \/ ~own[1].deleted) THEN {"logout-does-not-expire-cookie"} ELSE {})

C05StoreCauses(n, e) ==
  IF e.op = "SetTokenResponse" /\ e.fault # "before" /\ e.sid \notin IssuedBefore
  THEN {"tokens-under-id-not-issued"} ELSE {}

---------------------------------------------------------------------------
(* C09 -- logout is final *)

Recreates(n, e) ==
  Has(dead, e.sid) /\ e.fault # "before" /\ e.probe.known /\ e.probe.ex
  /\ e.op \in {"SetTokenResponse", "SetAuthorizationState", "ClearAuthorizationState"}

C09StoreCauses(n, e) ==
  (IF Recreates(n, e) THEN {"session-recreated:" \o e.op \o "@" \o Req(n).kind} ELSE {})
  \* a removal that reports success must have removed
  \cup (IF e.op = "RemoveSession" /\ ~e.err /\ e.probe.known /\ e.probe.ex THEN {"remove-reported-success-but-session-remains"} ELSE {})

LastStoreIdx(n) == IF Len(StoreEvs(n)) = 0 THEN 0 ELSE StoreEvs(n)[Len(StoreEvs(n))].i

C09RespCauses(n, r) ==
  LET sid == Req(n).cookie
      rm  == SelectSeq(Ops(n, "RemoveSession"), LAMBDA x : x.e.sid = sid)
  IN
    (IF Outcome(r) = "ok" /\ Has(dead, sid) /\ LastStoreIdx(n) > dead[sid].i
     THEN {"ok-after-logout:" \o (IF RefreshJustifies(n) THEN "refresh" ELSE "read-after:" \o dead[sid].by)} ELSE {})
    \cup (IF Req(n).kind = "logout" /\ flt[r.f].logout
          THEN IF \E i \in DOMAIN rm : rm[i].e.err
               THEN (IF Outcome(r) \in {"endsession", "ok"} THEN {"logout-reports-success-despite-store-error"} ELSE {})
               ELSE (IF Outcome(r) # "endsession" \/ r.http # 302 THEN {"logout-answer-not-end-session-redirect"} ELSE {})
                    \cup (IF ~\E i \in DOMAIN r.setCookie : r.setCookie[i].name = ("own:" \o r.f) /\ r.setCookie[i].deleted
                          THEN {"logout-does-not-expire-cookie"} ELSE {})
                    \cup (IF sid # "none" /\ (Len(rm) = 0) THEN {"logout-without-remove"} ELSE {})
          ELSE {})

---------------------------------------------------------------------------
(* C10 / C18 -- timeouts at system level (own filter's limits) *)

C10RespCauses(n, r) ==
  LET sid == Req(n).cookie
      c   == flt[r.f]
  IN IF Outcome(r) # "ok" \/ ~Has(logins, sid) \/ Len(TokReads(n)) = 0 THEN {}
     ELSE LET t == TokReads(n)[1].at IN
       (IF c.abs > 0 /\ t > logins[sid].at + c.abs THEN {"honoured-after-absolute-timeout"} ELSE {})
       \cup (IF c.idle > 0 /\ Has(lastUse, sid) /\ t > lastUse[sid] + c.idle THEN {"honoured-after-idle-timeout"} ELSE {})

\* the pending login state of a session is bound by the same limits: a callback does not find it after they have passed
C10CallbackCauses(n, r) ==
  LET sid == Req(n).cookie
      c   == flt[r.f]
      ar  == SelectSeq(Ops(n, "GetAuthorizationState"), LAMBDA x : x.e.sid = sid /\ Good(x) /\ x.e.res.ex)
  IN IF Req(n).kind # "callback" \/ ~Has(logins, sid) \/ Len(ar) = 0 \/ logins[sid].f # r.f THEN {}
     ELSE LET t == ar[1].at IN
       (IF c.abs > 0 /\ t > logins[sid].at + c.abs THEN {"login-state-honoured-after-absolute-timeout"} ELSE {})
       \cup (IF c.idle > 0 /\ t > (IF Has(lastUse, sid) THEN lastUse[sid] ELSE logins[sid].at) + c.idle THEN {"login-state-honoured-after-idle-timeout"} ELSE {})

\* a session inside both limits (with a second to spare) that nothing had removed when the request arrived (g0) is not dropped
\* (a check that overlaps another one is exempt: the other one may remove the session while this one runs)
C10DropCauses(n, r) ==
  LET sid == Req(n).cookie
      c   == flt[r.f]
      rd  == SelectSeq(Ops(n, "GetTokenResponse"), LAMBDA x : x.e.sid = sid /\ Good(x))
  IN IF ~(Req(n).kind = "app" /\ Has(logins, sid) /\ sid \in stored /\ ~chk[n].g0 /\ ~chk[n].ovl /\ Len(rd) > 0 /\ ~rd[1].e.res.ex
          /\ Has(lastUse, sid) /\ logins[sid].f = r.f) THEN {}
     ELSE LET t == rd[1].at IN
       IF (c.abs = 0 \/ t + 1 < logins[sid].at + c.abs) /\ (c.idle = 0 \/ t + 1 < lastUse[sid] + c.idle)
       THEN {"dropped-inside-both-limits"} ELSE {}

(* C03 -- while the provider's tokens remain valid the browser is not sent to the provider again *)
C03RespCauses(n, r) ==
  IF Outcome(r) # "authorize" \/ Len(TokReads(n)) = 0 \/ FaultyCheck(n) THEN {}
  ELSE LET T == TokReads(n)[1].e.res
           t == TokReads(n)[1].at
       IN IF IdKnown(T.id) /\ idtok[T.id].exp > t
             /\ (T.at = "none" \/ ~Has(attok, T.at) \/ attok[T.at] = -1 \/ attok[T.at] > t + 5 \/ ~flt[r.f].accessFwd)
          THEN {"sent-to-provider-while-tokens-valid"} ELSE {}

---------------------------------------------------------------------------
(* C11 -- refresh keeps the session current or ends it *)

\* C11 quantifies over histories: checks that overlap another check are judged by C01/C02/C09 only
C11IdpCauses(n, e) ==
  IF e.grant # "refresh_token" \/ chk[n].ovl THEN {}
  ELSE
    (IF Len(TokReads(n)) = 0 THEN {"refresh-without-token-read"}
     ELSE (IF e.rt # TokReads(n)[1].e.res.rt THEN {"refresh-token-not-the-stored-one"} ELSE {}))
    \cup (IF Has(rtl, e.rt) /\ Has(latest, rtl[e.rt].family) /\ latest[rtl[e.rt].family] # e.rt
          THEN {"stale-refresh-token-used"} ELSE {})
    \cup (IF e.clientId # ("cid:" \o e.f) \/ e.clientSecret # ("sec:" \o e.f) THEN {"wrong-client-auth-on-refresh"} ELSE {})
    \cup (IF \E i \in DOMAIN Evs(n) : Evs(n)[i].e.ev = "idp" /\ Evs(n)[i].e.grant = "refresh_token" THEN {"second-refresh-exchange-in-one-check"} ELSE {})

ExpectedMerge(old, iss, t) ==
  [ id |-> IF iss.id.ex THEN iss.id.sym ELSE old.id,
    at |-> IF iss.at.ex THEN iss.at.sym ELSE old.at,
    rt |-> IF iss.rt.ex THEN iss.rt.sym ELSE old.rt ]

C11RespCauses(n, r) ==
  LET rf == SelectSeq(IdpEvs(n), LAMBDA x : x.e.grant = "refresh_token")
  IN IF Len(TokReads(n)) > 0 /\ (~Has(bound, Req(n).cookie) \/ TokReads(n)[1].e.res.id \notin bound[Req(n).cookie])
     THEN {"later-check-sees-tokens-never-stored"}
     ELSE IF Len(rf) = 0 \/ Len(TokReads(n)) = 0 \/ chk[n].ovl THEN {}
     ELSE
      LET e   == rf[1].e
          old == TokReads(n)[1].e.res
          w   == SelectSeq(Ops(n, "SetTokenResponse"), LAMBDA x : x.e.sid = Req(n).cookie /\ Took(x))
          rm  == SelectSeq(Ops(n, "RemoveSession"), LAMBDA x : x.e.sid = Req(n).cookie /\ Took(x) /\ Good(x))
      IN
       IF e.answer = "ok" /\ Outcome(r) = "ok"
       THEN IF Len(w) = 0 THEN {"refreshed-but-not-stored"}
            ELSE LET m == ExpectedMerge(old, e.issued, rf[1].at)
                     a == w[Len(w)].e.arg
                 IN (IF a.at # m.at THEN {"merge-access-token"} ELSE {})
                    \* the merged result is validated like a fresh one: an ID token kept from before must still verify under the key set configured now
                    \cup (IF ~e.issued.id.ex /\ Has(idtok, old.id) /\ idtok[old.id].signedBy \in {"k12", "k3"} /\ idtok[old.id].signedBy # e.keySetNow
                          THEN {"ok-although-the-merged-result-does-not-validate"} ELSE {})
                    \cup (IF a.rt # m.rt THEN {"merge-refresh-token"} ELSE {})
                    \cup (IF a.id # m.id /\ ~(e.issued.id.ex /\ ~e.issued.id.compact /\ a.id = old.id)   \* KeepOldIdToken: an unparsable id_token counts as omitted
                          THEN {"merge-id-token"} ELSE {})
                    \cup (IF e.issued.expiresIn > 0 /\ (a.atExp > rf[1].at + e.issued.expiresIn \/ a.atExp < rf[1].at + e.issued.expiresIn - 6)
                          THEN {"merge-access-token-expiry"} ELSE {})
                    \cup (IF e.issued.expiresIn <= 0 /\ a.atExp # old.atExp THEN {"merge-kept-expiry"} ELSE {})
       ELSE IF e.answer # "ok" \/ Outcome(r) # "ok"
       THEN (IF Outcome(r) = "ok" THEN {"ok-after-failed-refresh"} ELSE {})
            \* the stale session is removed whatever the denial looks like (a removal that was attempted and failed counts: nothing more can be done)
            \* (a refresh that succeeded and was stored, followed by the denial of a later filter of the chain, ends nothing)
            \cup (IF Outcome(r) # "ok" /\ (e.answer # "ok" \/ Len(w) = 0) /\ Len(Ops(n, "RemoveSession")) = 0 /\ ~StoreFaultedBeforeNewLogin(n)
                  THEN {"stale-session-not-removed"} ELSE {})
       ELSE {}

---------------------------------------------------------------------------
(* C13 -- redirects well-formed *)

BaseParams == {"response_type", "client_id", "redirect_uri", "scope", "state", "nonce", "code_challenge", "code_challenge_method"}

C13RespCauses(n, r) ==
  LET c == flt[r.f] IN
  (IF r.http = 302 /\ ~r.noCache THEN {"redirect-without-no-cache"} ELSE {})
  \cup (IF r.loc.ex /\ ~r.loc.parseOK THEN {"location-does-not-parse"} ELSE {})
  \cup (IF r.loc.ex /\ r.loc.kind = "other" /\ Req(n).kind # "logout" THEN {"location-is-not-a-known-endpoint"} ELSE {})
  \cup (IF Outcome(r) = "authorize"
        THEN LET p == r.loc.params
                 sets == Ops(n, "SetAuthorizationState")
             IN (IF DOMAIN p # BaseParams \cup DOMAIN c.ownQuery THEN {"authorize-parameter-set"} ELSE {})
                \cup (IF BaseParams \subseteq DOMAIN p
                      THEN (IF p.response_type # <<"code">> THEN {"response_type"} ELSE {})
                        \cup (IF p.client_id # <<"cid:" \o r.f>> THEN {"client_id"} ELSE {})
                        \cup (IF p.redirect_uri # <<"cb:" \o r.f>> THEN {"redirect_uri"} ELSE {})
                        \cup (IF Len(p.scope) # 1 \/ "openid" \notin RangeS(p.scope[1])
                                 \/ ~(RangeS(c.scopes) \subseteq RangeS(p.scope[1]))
                                 \/ ~(RangeS(p.scope[1]) \subseteq RangeS(c.scopes) \cup {"openid"})
                              THEN {"scope"} ELSE {})
                        \cup (IF p.code_challenge_method # <<"S256">> THEN {"code_challenge_method"} ELSE {})
                        \cup (IF Len(sets) = 0 THEN {"authorize-without-stored-login-state"}
                              ELSE LET a == sets[Len(sets)].e.arg IN
                                (IF p.state # <<a.state>> THEN {"state-not-the-stored-one"} ELSE {})
                                \cup (IF p.nonce # <<a.nonce>> THEN {"nonce-not-the-stored-one"} ELSE {})
                                \cup (IF p.code_challenge # <<"S256(" \o a.verifier \o ")">> THEN {"challenge-not-S256-of-stored-verifier"} ELSE {})
                                \cup (IF a.url # Req(n).url THEN {"stored-url-not-the-requested-one"} ELSE {}))
                      ELSE {})
                \cup (IF ~r.loc.ownRetained THEN {"own-query-not-retained"} ELSE {})      \* (judged by the driver on the raw components)
                \cup (IF r.loc.fragment THEN {"fragment"} ELSE {})
        ELSE {})
  \cup (IF Outcome(r) = "app"
        THEN IF ~Has(logins, Req(n).cookie) \/ r.loc.sym # logins[Req(n).cookie].url THEN {"app-redirect-not-the-requested-url"} ELSE {}
        ELSE {})

---------------------------------------------------------------------------
\* the session issued by an authorize answer, if any
IssuedCookie(r) ==
  LET own == SelectSeq(r.setCookie, LAMBDA ck : ck.name = ("own:" \o r.f) /\ ~ck.deleted)
  IN IF Outcome(r) = "authorize" /\ Len(own) > 0 THEN own[Len(own)].sid ELSE "none"

(* C06 -- the values of a login are not those of any other login, nor functions of one another *)
C06RespCauses(n, r) ==
  IF Outcome(r) # "authorize" \/ ~(BaseParams \subseteq DOMAIN r.loc.params) THEN {}
  ELSE LET p == r.loc.params
           st == p.state[1]  no == p.nonce[1]  ch == p.code_challenge[1]
           old == {logins[s] : s \in DOMAIN logins}
       IN (IF \E o \in old : o.state = st THEN {"state-reused-from-an-earlier-login"} ELSE {})
          \cup (IF \E o \in old : o.nonce = no THEN {"nonce-reused-from-an-earlier-login"} ELSE {})
          \cup (IF \E o \in old : o.challenge = ch THEN {"pkce-challenge-reused-from-an-earlier-login"} ELSE {})
          \cup (IF IssuedCookie(r) \in DOMAIN logins THEN {"session-id-reused-from-an-earlier-login"} ELSE {})

(* C14 -- no credential reaches the user agent *)
C14RespCauses(n, r) ==
  (IF r.leaks # <<>> THEN {"leak:" \o r.leaks[1]} ELSE {})
  \cup (IF r.okExtra # <<>> THEN {"ok-adds:" \o r.okExtra[1]} ELSE {})
  \* an OK answer adds no header to the upstream request but the ID-token header and, when configured, the access-token header
  \cup (IF r.kind = "ok" /\ Has(flt, r.f) /\ \E i \in DOMAIN r.upstream : r.upstream[i].kl \notin ({flt[r.f].idHeaderL} \cup (IF flt[r.f].accessFwd THEN {flt[r.f].atHeaderL} ELSE {}))
        THEN {"ok-adds-upstream-header"} ELSE {})

(* C15 -- nothing crashes a check *)
C15RespCauses(n, r) ==
  (IF r.kind = "panic" THEN {"panic"} ELSE {})
  \cup (IF ~r.wellFormed THEN {"ill-formed-verdict"} ELSE {})

(* C18 -- filter isolation *)
C18RespCauses(n, r) ==
  IF Outcome(r) = "ok" /\ Has(logins, Req(n).cookie) /\ logins[Req(n).cookie].f # r.f
  THEN {"session-of-another-filter-honoured:" \o Req(n).cookieVia \o
        (IF flt[logins[Req(n).cookie].f].store = flt[r.f].store THEN "@shared-store" ELSE "@separate-stores")} ELSE {}

C18IdpCauses(n, e) ==
  (IF e.endpoint # flt[e.f].idp THEN {"token-endpoint-of-another-filter"} ELSE {})
  \cup (IF e.clientId # ("cid:" \o e.f) THEN {"client-id-of-another-filter"} ELSE {})

---------------------------------------------------------------------------
Tag(p, m, causes, n) == {V(p, m, c, n) : c \in causes}

\* Checks whose request was deformed at protobuf level (Shapes) or that received a token-endpoint body from the
\* odd-body grammar have no meaningful abstract kind / answer class: only C14 and C15 judge them.
Shaped(n)  == Req(n).shape # "none"
OddBody(n) == \E i \in DOMAIN Evs(n) : Evs(n)[i].e.ev = "idp" /\ Evs(n)[i].e.answer = "odd"
Opaque(n)  == Shaped(n) \/ OddBody(n)

\* C01 for a check that received a body of the odd-body grammar: an answer that is not a token response at all (not a JSON
\* object with token_type bearer: null, an array, {}, an error document) is not a successful exchange, so an OK needs
\* tokens that were fresh when read.  (A token response that omits members keeps the stored ones: C11.)
C01OddCauses(n, r) ==
  IF Outcome(r) # "ok" \/ Shaped(n) THEN {}
  ELSE IF Len(TokReads(n)) = 0 THEN {"ok-without-token-read"}
  ELSE IF Fresh(TokReads(n)[1].e.res, r.f, TokReads(n)[1].at) THEN {}
  ELSE IF \E i \in DOMAIN Evs(n) : Evs(n)[i].e.ev = "idp" /\ Evs(n)[i].e.answer = "odd" /\ ~Evs(n)[i].e.shaped
       THEN {"ok-after-an-answer-that-is-not-a-token-response"} ELSE {}

\* C11 for a check whose refresh exchange was answered with something that is not a token response at all (status 200 with
\* null, {}, an error document, ...): the refresh has failed - the request is not let through on its strength and the stale
\* session is removed, as after any other failed refresh.
C11OddCauses(n, r) ==
  IF Shaped(n) \/ ~\E i \in DOMAIN Evs(n) : Evs(n)[i].e.ev = "idp" /\ Evs(n)[i].e.grant = "refresh_token" /\ Evs(n)[i].e.answer = "odd" /\ ~Evs(n)[i].e.shaped
  THEN {}
  ELSE (IF Outcome(r) = "ok" THEN {"ok-after-failed-refresh"} ELSE {})
       \cup (IF Len(Ops(n, "RemoveSession")) = 0 /\ ~StoreFaultedBeforeNewLogin(n) /\ Outcome(r) \notin {"panic", "grpcError", "nilResponse"}
             THEN {"stale-session-not-removed"} ELSE {})

RespViol(n, r) ==
  IF Opaque(n) THEN Tag("C14", "NoLeak", C14RespCauses(n, r), n) \cup Tag("C15", "NoCrash", C15RespCauses(n, r), n)
                    \cup (IF OddBody(n) THEN Tag("C01", "OkJustified", C01OddCauses(n, r), n) \cup Tag("C11", "RefreshMerge", C11OddCauses(n, r), n) ELSE {}) ELSE
       Tag("C01", "OkJustified", C01Causes(n, r), n)
  \cup Tag("C01", "OkJustified", {"ok-for-a-session-beyond-its-timeouts:" \o c : c \in C10RespCauses(n, r)}, n)
  \cup Tag("C03", "NoRelogin", C03RespCauses(n, r), n)
  \cup Tag("C10", "NotDroppedEarly", C10DropCauses(n, r), n)
  \cup (IF Cardinality(DOMAIN flt) > 1
        THEN Tag("C18", "OwnTimeouts", {c \o (IF \E g \in DOMAIN flt : g # r.f /\ flt[g].store = flt[r.f].store THEN "@shared-store" ELSE "@own-store") : c \in C10RespCauses(n, r) \cup C10DropCauses(n, r)}, n)
             \* with several filters, each filter's own header names, cookie name and end-session endpoint govern its answers
             \cup Tag("C18", "OwnSettings", C02RespCauses(n, r) \cup C05RespCauses(n, r) \cup C13RespCauses(n, r)
                                            \cup {c \in C09RespCauses(n, r) : c \in {"logout-answer-not-end-session-redirect", "logout-does-not-expire-cookie"}}, n)
        ELSE {})
  \cup Tag("C02", "ForwardedEqBound", C02RespCauses(n, r), n)
  \cup Tag("C05", "CookieAndSessionId", C05RespCauses(n, r), n)
  \cup Tag("C06", "ValuesFresh", C06RespCauses(n, r), n)
  \cup Tag("C09", "LogoutFinal", C09RespCauses(n, r), n)
  \cup Tag("C10", "NeverHonouredLate", C10RespCauses(n, r) \cup C10CallbackCauses(n, r), n)
  \cup Tag("C11", "RefreshMerge", C11RespCauses(n, r), n)
  \cup Tag("C13", "Redirects", C13RespCauses(n, r), n)
  \cup Tag("C14", "NoLeak", C14RespCauses(n, r), n)
  \cup Tag("C15", "NoCrash", C15RespCauses(n, r), n)
  \cup Tag("C18", "HonouredOnlyByCreator", C18RespCauses(n, r), n)

C11StoreCauses(n, e) ==
  IF e.op = "GetTokenResponse" /\ ~e.err /\ e.res.ex /\ Has(lastStored, e.sid) /\ ~chk[n].ovl
     /\ (e.res.id # lastStored[e.sid].id \/ e.res.at # lastStored[e.sid].at \/ e.res.rt # lastStored[e.sid].rt)
  THEN {"later-check-does-not-see-the-stored-result"} ELSE {}

StoreViol(n, e) ==
  IF Opaque(n) THEN {} ELSE
       Tag("C11", "RefreshMerge", C11StoreCauses(n, e), n) \cup
       Tag("C02", "BoundOnlyIfValid", C02StoreCauses(n, e), n)
  \cup Tag("C04", "CodeConsumed", C04StoreCauses(n, e), n)
  \cup Tag("C05", "TokensOnlyUnderIssued", C05StoreCauses(n, e), n)
  \cup Tag("C09", "LoggedOutStaysDead", C09StoreCauses(n, e), n)

(* C19 -- a token request made after a reconcile uses the Secret's current value *)
C19IdpCauses(n, e) ==
  IF flt[e.f].secretRef /\ e.clientSecret # ("sec:" \o e.f) THEN {"token-request-does-not-use-the-current-secret:" \o e.clientSecret} ELSE {}

IdpViol(n, e) ==
  IF Opaque(n) \/ e.answer = "odd" THEN {} ELSE
       Tag("C19", "CurrentSecretAtTokenEndpoint", C19IdpCauses(n, e), n) \cup
       Tag("C04", "ExchangeBound", C04IdpCauses(n, e), n)
  \cup Tag("C11", "RefreshUsesLatest", C11IdpCauses(n, e), n)
  \cup Tag("C18", "OwnCredentials", C18IdpCauses(n, e), n)

---------------------------------------------------------------------------
(* Layer B -- rung conformance.  The ladder of oidcHandler.Process (the actions of AuthFlow.tla) as an automaton over
   the logged events of one check: after every event, which event may come next.  An event outside that set is
   SPECIFICATION DRIFT (the code no longer follows the specification rung by rung); it is counted, never a violation. *)
Lbl(e) == IF e.ev = "store" THEN "S:" \o e.op ELSE IF e.ev = "idp" THEN "I:" \o e.grant ELSE IF e.ev = "jwks" THEN "J" ELSE "R:" \o Outcome(e)

\* a chain whose OIDC filter is followed by a denying mock filter answers with that denial where the OIDC filter says OK
OkLbl(q) == IF flt[q.f].afterDeny THEN "R:deny" ELSE "R:ok"
OnRefreshPath(n) == \E i \in DOMAIN Evs(n) : Evs(n)[i].e.ev = "idp" /\ Evs(n)[i].e.grant = "refresh_token"

NextAllowed(n) ==
  LET q == Req(n)
      es == Evs(n)
  IN IF Len(es) = 0
     THEN IF q.kind = "logout" /\ flt[q.f].logout THEN (IF q.cookie = "none" THEN {"R:endsession"} ELSE {"S:RemoveSession"})
          ELSE IF q.cookie = "none" THEN {"S:SetAuthorizationState"}
          ELSE IF q.kind = "callback" THEN (IF q.lenientQuery THEN {"R:deny", "S:GetAuthorizationState"}          \* strict and lenient query parsers differ here
                                           ELSE IF q.states = <<>> \/ q.codes = <<>> \/ q.states[1] = "none" \/ q.codes[1] = "none" THEN {"R:deny"} ELSE {"S:GetAuthorizationState"})   \* (an empty first value counts as missing)
          ELSE {"S:GetTokenResponse"}
     ELSE
      LET x == es[Len(es)]
          e == x.e
          l0 == Lbl(e)
      IN
      CASE l0 = "S:RemoveSession" ->
             IF e.err THEN {"R:sessionError"}
             ELSE IF q.kind = "logout" /\ flt[q.f].logout THEN {"R:endsession"} ELSE {"S:SetAuthorizationState"}
        [] l0 = "S:SetAuthorizationState" -> IF e.err THEN {"R:sessionError"} ELSE {"R:authorize"}
        [] l0 = "S:GetTokenResponse" ->
             IF e.err THEN {"R:sessionError"}
             ELSE IF ~e.res.ex THEN {"S:RemoveSession"}
             ELSE IF Fresh(e.res, q.f, x.at) THEN {OkLbl(q)}
             ELSE IF e.res.rt = "none" THEN {"S:RemoveSession"} ELSE {"I:refresh_token"}
        [] l0 = "I:refresh_token" -> IF e.answer = "ok" THEN {"S:GetAuthorizationState"} ELSE {"S:RemoveSession"}
        [] l0 = "S:GetAuthorizationState" ->
             IF OnRefreshPath(n) THEN (IF e.err THEN {"S:RemoveSession"} ELSE {"J", "S:RemoveSession"})
             ELSE IF e.err THEN {"R:sessionError"}
             ELSE IF ~e.res.ex THEN {"R:deny"}
             ELSE IF e.res.state \notin RangeS(q.states) \/ q.states[1] # e.res.state THEN {"R:deny"}
             ELSE {"I:authorization_code"}
        [] l0 = "I:authorization_code" -> IF e.answer = "ok" THEN {"J", "R:deny"} ELSE {"R:deny"}
        [] l0 = "J" ->
             IF OnRefreshPath(n) THEN (IF e.res = "err" THEN {"S:RemoveSession"} ELSE {"S:SetTokenResponse", "S:RemoveSession"})
             ELSE (IF e.res = "err" THEN {"R:deny"} ELSE {"S:ClearAuthorizationState", "R:deny"})
        [] l0 = "S:ClearAuthorizationState" -> IF e.err THEN {"R:sessionError"} ELSE {"S:SetTokenResponse"}
        [] l0 = "S:SetTokenResponse" -> IF e.err THEN {"R:sessionError"} ELSE IF OnRefreshPath(n) THEN {OkLbl(q)} ELSE {"R:app"}
        [] OTHER -> {}

\* the drift record of an event that does not follow the ladder (empty set when it does, or when the check is opaque)
RungDrift(n, e) ==
  \* (a filter that is handed the key provider object itself makes its key lookups unobserved: the ladder has a hole there)
  IF Opaque(n) \/ ~flt[Req(n).f].keysObserved \/ (e.ev = "idp" /\ e.answer = "odd") \/ Lbl(e) \in NextAllowed(n) THEN {}
  ELSE {[sc |-> sc, n |-> n, expect |-> "one-of-the-ladder's-next-rungs", got |-> Lbl(e)]}

---------------------------------------------------------------------------
Init ==
  /\ l = 1 /\ now = 0 /\ sc = "none"
  /\ flt = <<>> /\ logins = <<>> /\ presented = {} /\ consumed = {} /\ dead = <<>>
  /\ codes = <<>> /\ idtok = <<>> /\ rtl = <<>> /\ latest = <<>> /\ lastUse = <<>> /\ stored = {} /\ gone = {} /\ bound = <<>> /\ lastStored = <<>> /\ attok = <<>>
  /\ chk = <<>> /\ br = <<>> /\ viol = {} /\ drift = {} /\ fired = <<>>

E == Trace[l]

Reset ==
  /\ E.ev = "reset"
  /\ sc' = E.scenario /\ now' = 0
  /\ flt' = [name \in {E.filters[i].name : i \in DOMAIN E.filters} |->
               (CHOOSE f \in RangeS(E.filters) : f.name = name)]
  /\ logins' = <<>> /\ presented' = {} /\ consumed' = {} /\ dead' = <<>>
  /\ codes' = <<>> /\ idtok' = <<>> /\ rtl' = <<>> /\ latest' = <<>> /\ lastUse' = <<>> /\ stored' = {} /\ gone' = {} /\ bound' = <<>> /\ lastStored' = <<>> /\ attok' = <<>>
  /\ chk' = <<>> /\ br' = <<>>
  /\ fired' = Bump(fired, "scenarios")
  /\ UNCHANGED <<viol, drift>>

Clock ==
  /\ E.ev = "clock" /\ now' = E.now
  /\ UNCHANGED <<sc, flt, logins, presented, consumed, dead, codes, idtok, rtl, latest, lastUse, stored, gone, bound, lastStored, attok, chk, br, viol, drift, fired>>

Skip ==
  /\ E.ev \in {"noop", "end", "keyset", "authz"}
  /\ codes' = IF E.ev = "authz"
              THEN Put(codes, E.code, [sid |-> E.sid, challenge |-> E.challenge, clientId |-> E.clientId,
                                       redirectUri |-> E.redirectUri, used |-> FALSE])
              ELSE codes
  /\ UNCHANGED <<now, sc, flt, logins, presented, consumed, dead, idtok, rtl, latest, lastUse, stored, gone, bound, lastStored, attok, chk, br, viol, drift, fired>>

ReqEv ==
  /\ E.ev = "req"
  \* a check that shares any part of its lifetime with another check is marked as overlapped (ovl)
  /\ chk' = Put([k \in DOMAIN chk |-> [chk[k] EXCEPT !.ovl = TRUE]], E.n, [req |-> E, evs |-> <<>>, ovl |-> DOMAIN chk # {}, g0 |-> E.cookie \in gone])
  /\ presented' = IF E.cookie = "none" THEN presented ELSE presented \cup {E.cookie}
  /\ UNCHANGED <<now, sc, flt, logins, consumed, dead, codes, idtok, rtl, latest, lastUse, stored, gone, bound, lastStored, attok, br, viol, drift, fired>>

\* a store call that was parked in the middle had made its reads by the time it parked, E.lin (> 0) lines before this event
Note(n) == [chk EXCEPT ![n].evs = Append(@, [e |-> E, at |-> now, i |-> IF E.ev = "store" /\ E.lin > 0 THEN l - E.lin ELSE l])]

StoreEv ==
  /\ E.ev = "store"
  /\ chk' = Note(E.n)
  /\ viol' = viol \cup StoreViol(E.n, E)
  /\ drift' = drift \cup RungDrift(E.n, E)
  /\ fired' = BumpIf(BumpIf(fired, E.op = "SetTokenResponse" /\ E.fault # "before", "SetTokenResponse"),
                     Has(dead, E.sid), "storeOnLoggedOutSession")
  \* the newest refresh token of a family is the last one the service managed to store
  /\ latest' = IF E.op = "SetTokenResponse" /\ E.fault = "none" /\ ~E.err /\ Has(rtl, E.arg.rt)
               THEN Put(latest, rtl[E.arg.rt].family, E.arg.rt) ELSE latest
  /\ dead' = IF Recreates(E.n, E) /\ dead[E.sid].by = "nothing-recreated-it"
             THEN [dead EXCEPT ![E.sid].by = E.op \o "@" \o Req(E.n).kind] ELSE dead
  /\ bound' = IF E.op = "SetTokenResponse" /\ E.fault # "before" /\ E.arg.ex
              THEN Put(bound, E.sid, (IF Has(bound, E.sid) THEN bound[E.sid] ELSE {}) \cup {E.arg.id}) ELSE bound
  /\ lastStored' = IF E.op = "SetTokenResponse" /\ E.fault = "none" /\ ~E.err THEN Put(lastStored, E.sid, E.arg)
                   ELSE IF E.op \in {"SetTokenResponse", "RemoveSession"} \/ E.err THEN Del(lastStored, E.sid)
                   ELSE lastStored
  /\ stored' = IF E.op = "SetTokenResponse" /\ E.fault = "none" /\ ~E.err THEN stored \cup {E.sid} ELSE stored
  /\ gone' = IF (E.op = "RemoveSession" /\ E.fault # "before") \/ E.err THEN gone \cup {E.sid} ELSE gone
  \* a callback whose tokens reached the store has completed the login, whatever is answered afterwards: the session is
  \* authenticated, so its login state is used up
  /\ consumed' = IF E.op = "SetTokenResponse" /\ E.fault = "none" /\ ~E.err /\ E.arg.ex /\ Req(E.n).kind = "callback"
                 THEN consumed \cup {E.sid} ELSE consumed
  /\ UNCHANGED <<now, sc, flt, logins, presented, codes, idtok, rtl, lastUse, attok, br>>

IdpEv ==
  /\ E.ev = "idp"
  /\ chk' = Note(E.n)
  /\ viol' = viol \cup IdpViol(E.n, E)
  /\ drift' = drift \cup RungDrift(E.n, E)
  /\ idtok' = IF E.issued.ex /\ E.issued.id.ex
              THEN Put(idtok, E.issued.id.sym, E.issued.id) ELSE idtok
  /\ rtl' = IF E.issued.ex /\ E.issued.rt.ex
            THEN Put(rtl, E.issued.rt.sym, [family |-> E.issued.rt.family]) ELSE rtl
  /\ attok' = IF E.issued.ex /\ E.issued.at.ex
              THEN Put(attok, E.issued.at.sym, IF E.issued.expiresIn > 0 THEN now + E.issued.expiresIn ELSE -1) ELSE attok
  /\ fired' = Bump(fired, "idp:" \o E.grant \o ":" \o E.answer)
  /\ UNCHANGED <<now, sc, flt, logins, presented, consumed, dead, codes, latest, lastUse, stored, gone, bound, lastStored, br>>

JwksEv ==
  /\ E.ev = "jwks"
  /\ chk' = Note(E.n)
  /\ drift' = drift \cup RungDrift(E.n, E)
  /\ UNCHANGED <<now, sc, flt, logins, presented, consumed, dead, codes, idtok, rtl, latest, lastUse, stored, gone, bound, lastStored, attok, br, viol, fired>>

RespEv ==
  /\ E.ev = "resp"
  /\ LET n == E.n
         r == E
         o == Outcome(r)
         q == Req(n)
         newSid == IssuedCookie(r)
         sets == Ops(n, "SetAuthorizationState")
         rm == SelectSeq(Ops(n, "RemoveSession"), LAMBDA x : x.e.sid = q.cookie /\ Took(x) /\ Good(x))
     IN
       /\ viol' = viol \cup RespViol(n, r)
       /\ drift' = (IF r.expect # "" /\ r.expect # o THEN drift \cup {[sc |-> sc, n |-> n, expect |-> r.expect, got |-> o]} ELSE drift)
                    \cup (IF o \in {"panic", "grpcError", "nilResponse", "bare"} THEN {} ELSE RungDrift(n, r))
       /\ logins' = IF newSid # "none" /\ Len(sets) > 0 /\ BaseParams \subseteq DOMAIN r.loc.params
                    THEN Put(logins, newSid, [f |-> r.f, state |-> r.loc.params.state[1], nonce |-> r.loc.params.nonce[1],
                                               challenge |-> r.loc.params.code_challenge[1], url |-> q.url, at |-> now])
                    ELSE logins
       /\ consumed' = IF o = "app" /\ q.kind = "callback" THEN consumed \cup {q.cookie} ELSE consumed
       /\ dead' = IF q.kind = "logout" /\ o = "endsession" /\ q.cookie # "none" /\ Len(rm) > 0
                  THEN Put(dead, q.cookie, [i |-> rm[1].i, by |-> "nothing-recreated-it"]) ELSE dead
       /\ lastUse' = IF q.cookie # "none" /\ Len(StoreEvs(n)) > 0 THEN Put(lastUse, q.cookie, StoreEvs(n)[Len(StoreEvs(n))].at) ELSE lastUse
       /\ chk' = Del(chk, n)
       /\ br' = IF Has(br, r.b) /\ br[r.b].active
                THEN [br EXCEPT ![r.b].authz = @ + (IF o = "authorize" THEN 1 ELSE 0),
                                ![r.b].ok = @ \/ o = "ok"]
                ELSE br
       /\ fired' = Bump(BumpIf(BumpIf(BumpIf(fired, FaultyCheck(n), "faultyCheck"),
                                      Has(dead, q.cookie), "respOnLoggedOutSession"),
                               Len(OkIdpEvs(n)) > 0, "checkWithSuccessfulExchange"),
                        "outcome:" \o o)
  /\ UNCHANGED <<now, sc, flt, presented, codes, idtok, rtl, latest, stored, gone, bound, lastStored, attok>>

BrowseEv ==
  /\ E.ev = "browse"
  /\ IF E.phase = "begin"
     THEN /\ br' = Put(br, E.b, [active |-> TRUE, authz |-> 0, ok |-> FALSE, url |-> E.url])
          /\ viol' = viol
     ELSE /\ br' = Put(br, E.b, [active |-> FALSE, authz |-> 0, ok |-> FALSE, url |-> E.url])
          /\ viol' = viol
               \cup Tag("C03", "OnePass",
                        (IF E.outcome # "ok" \/ ~(Has(br, E.b) /\ br[E.b].ok) THEN {"login-does-not-end-in-ok:" \o E.outcome} ELSE {})
                        \cup (IF Has(br, E.b) /\ br[E.b].authz > 1 THEN {"more-than-one-pass-through-the-provider"} ELSE {}), 0)
  /\ fired' = Bump(fired, "browse:" \o E.phase)
  /\ UNCHANGED <<now, sc, flt, logins, presented, consumed, dead, codes, idtok, rtl, latest, lastUse, stored, gone, bound, lastStored, attok, chk, drift>>

\* An answer changed after Check had returned it (the driver re-reads retained answers after every later check): gRPC
\* serialises the answer after the handler returns, so under concurrency the browser can be sent another session's
\* Location (C13, C03: the login does not come back to its own URL) or cookie (C05), or another session's tokens go upstream (C02).
MutatedEv ==
  /\ E.ev = "mutated"
  /\ LET parts == {E.parts[i] : i \in DOMAIN E.parts}
         props == (IF "location" \in parts THEN {"C13", "C03"} ELSE {})
                    \cup (IF "cookie" \in parts THEN {"C05", "C03"} ELSE {})
                    \cup (IF "upstream" \in parts THEN {"C02", "C14"} ELSE {})
                    \cup (IF parts \subseteq {"body", "other"} THEN {"C15"} ELSE {})
     IN viol' = viol \cup {[p |-> q, m |-> "AnswerStable", cause |-> "answer-changed-after-it-was-returned", sc |-> sc, n |-> E.n, at |-> l] : q \in props}
  /\ fired' = BumpIf(fired, TRUE, "answerMutated")
  /\ UNCHANGED <<now, sc, flt, logins, presented, consumed, dead, codes, idtok, rtl, latest, lastUse, stored, gone, bound, lastStored, attok, chk, br, drift>>

Next ==
  /\ l <= Len(Trace)
  /\ l' = l + 1
  /\ \/ Reset \/ Clock \/ Skip \/ ReqEv \/ StoreEv \/ IdpEv \/ JwksEv \/ RespEv \/ BrowseEv \/ MutatedEv

Spec == Init /\ [][Next]_vars

---------------------------------------------------------------------------
\* Final-state emission: fires exactly once, when the whole trace has been consumed.
Emit ==
  l <= Len(Trace) \/
  JsonSerialize(OutFile, [consumed |-> l - 1, len |-> Len(Trace), viol |-> viol, drift |-> drift, fired |-> fired])

\* A trace line no action accepts stops the run short of the end; the runner compares `consumed` with the file length.
=============================================================================
