---------------------------- MODULE EntropyTrace ----------------------------
(* Accepts the log of the executable attack witnesses of Entropy.tla (C06): a witness that derived a secret is a violation. *)
EXTENDS Integers, Sequences, FiniteSets, TLC, Json
CONSTANTS TraceFile, OutFile
Trace == ndJsonDeserialize(TraceFile)
VARIABLES l, viol, fired
vars == <<l, viol, fired>>
E == Trace[l]
Bump(f, k) == IF k \in DOMAIN f THEN [f EXCEPT ![k] = @ + 1] ELSE [x \in DOMAIN f \cup {k} |-> IF x = k THEN 1 ELSE f[x]]
Init == l = 1 /\ viol = {} /\ fired = <<>>
Next ==
  /\ l <= Len(Trace) /\ l' = l + 1
  /\ IF E.ev = "witness"
     THEN /\ fired' = Bump(Bump(fired, "scenarios"), E.action)
          /\ viol' = IF E.derived
                     THEN viol \cup {[p |-> "C06", m |-> "Secrecy", cause |-> E.action \o ":" \o E.what, sc |-> E.id, n |-> 0, at |-> l]}
                     ELSE viol
     ELSE UNCHANGED <<viol, fired>>
Spec == Init /\ [][Next]_vars
Emit == l <= Len(Trace) \/ JsonSerialize(OutFile, [consumed |-> l - 1, len |-> Len(Trace), viol |-> viol, fired |-> fired, drift |-> {}])
=============================================================================
