--------------------------- MODULE DispatchTrace ---------------------------
(***************************************************************************)
(* Judges what the real ExtAuthZFilter.Check answered for every enumerated *)
(* (or random) rule set x target (C07) and chain list x header map (C08)   *)
(* against the TLA+ definitions in DispatchOps.                            *)
(***************************************************************************)
EXTENDS DispatchOps, TLC, Json

CONSTANTS TraceFile, OutFile
Trace == ndJsonDeserialize(TraceFile)

VARIABLES l, targets, inputs, viol, fired
vars == <<l, targets, inputs, viol, fired>>
E == Trace[l]
Bump(f, k) == IF k \in DOMAIN f THEN [f EXCEPT ![k] = @ + 1] ELSE [x \in DOMAIN f \cup {k} |-> IF x = k THEN 1 ELSE f[x]]

C07Viol ==
  LET ts == IF E.own = <<>> THEN targets ELSE E.own        \* random cases bring their own targets
      bad == {i \in DOMAIN ts : (E.verdicts[i] = 1) # Triggered(E.rules, ts[i])}
  IN IF bad = {} THEN (IF E.conc > 0 THEN {[p |-> "C07", m |-> "TriggerFunction", cause |-> "decision-for-one-path-differs-between-concurrent-requests",
                                             sc |-> E.id, n |-> E.conc, at |-> l]} ELSE {})
                      \cup (IF E.envDiff > 0 THEN {[p |-> "C07", m |-> "TriggerFunction", cause |-> "decision-depends-on-method-authority-or-headers-not-on-the-path-alone",
                                                    sc |-> E.id, n |-> E.envDiff, at |-> l]} ELSE {})
     ELSE LET i == CHOOSE j \in bad : \A k \in bad : j <= k
          IN {[p |-> "C07", m |-> "TriggerFunction",
               cause |-> IF PathOf(ts[i]) # ts[i] /\ Triggered(E.rules, ts[i]) THEN "protected-path-not-triggered-because-of-query-or-fragment"
                         ELSE IF Triggered(E.rules, ts[i]) THEN "path-must-trigger-but-does-not" ELSE "path-must-not-trigger-but-does",
               sc |-> E.id, n |-> i, at |-> l]}

Class(o) == IF o = "ok" THEN "ok" ELSE IF o \in {"mockDeny", "unmatchedDeny"} THEN "deny" ELSE IF o = "error" THEN "notOk" ELSE "oidc"
\* (for a filter that cannot be set up any answer that is not OK will do: a gRPC error, a denial)
SameClass(got, want) == IF want = "notOk" THEN got # "ok" ELSE got = want

C08Viol ==
  LET bad == {i \in DOMAIN inputs : LET j == Judge(E.chains, E.allowUnmatched, inputs[i])
                                     IN ~SameClass(E.results[i].outcome, Class(j[1])) \/ (E.results[i].oidc # -1 /\ Class(j[1]) # "notOk" /\ E.results[i].oidc # j[2])}
  IN IF bad = {} THEN {}
     ELSE LET i == CHOOSE j \in bad : \A k \in bad : j <= k
              j == Judge(E.chains, E.allowUnmatched, inputs[i])
          IN {[p |-> "C08", m |-> "FirstMatchingChain",
               cause |-> IF ~SameClass(E.results[i].outcome, Class(j[1])) THEN "expected-" \o Class(j[1]) \o "-got-" \o E.results[i].outcome
                         ELSE "evaluation-did-not-stop-at-first-denial-or-skipped-a-filter",
               sc |-> E.id, n |-> i, at |-> l]}

Init == l = 1 /\ targets = <<>> /\ inputs = <<>> /\ viol = {} /\ fired = <<>>
Next ==
  /\ l <= Len(Trace) /\ l' = l + 1
  /\ CASE E.ev = "targets" -> targets' = E.list /\ UNCHANGED <<inputs, viol, fired>>
       [] E.ev = "inputs"  -> inputs' = E.list /\ UNCHANGED <<targets, viol, fired>>
       [] E.ev = "c07" -> viol' = viol \cup C07Viol /\ fired' = Bump(fired, "scenarios") /\ UNCHANGED <<targets, inputs>>
       [] E.ev = "c08" -> viol' = viol \cup C08Viol /\ fired' = Bump(fired, "scenarios") /\ UNCHANGED <<targets, inputs>>
       \* a case whose document the loader refuses (equal chain names, a regular expression that does not compile) does not apply
       [] E.ev = "dskip" -> fired' = Bump(Bump(fired, "scenarios"), "skipped") /\ UNCHANGED <<targets, inputs, viol>>
       [] OTHER -> UNCHANGED <<targets, inputs, viol, fired>>
Spec == Init /\ [][Next]_vars
Emit == l <= Len(Trace) \/ JsonSerialize(OutFile, [consumed |-> l - 1, len |-> Len(Trace), viol |-> viol, fired |-> fired, drift |-> {}])
=============================================================================
