---------------------------- MODULE ConfigTrace ----------------------------
(* Judges what the real configuration loader did with every enumerated document (C17). *)
EXTENDS ConfigOps, Json

CONSTANTS TraceFile, OutFile
Trace == ndJsonDeserialize(TraceFile)
VARIABLES l, viol, fired
vars == <<l, viol, fired>>
E == Trace[l]
Bump(f, k) == IF k \in DOMAIN f THEN [f EXCEPT ![k] = @ + 1] ELSE [x \in DOMAIN f \cup {k} |-> IF x = k THEN 1 ELSE f[x]]
RangeS(s) == {s[i] : i \in DOMAIN s}

\* mismatches between the effective (merged) section the specification expects and the loaded one
FilterCauses(doc, flt, r) ==
  LET cid == Eff(doc, flt, "cid")  cb == Eff(doc, flt, "cb")  lo == Eff(doc, flt, "lo")  sec == Eff(doc, flt, "sec")
      ep == Eff(doc, flt, "ep")  sc == Eff(doc, flt, "sc")
      ownSc == IF flt.f.sc = "profile" THEN {"profile-" \o flt.tag} ELSE IF flt.f.sc = "openidX" THEN {"x-" \o flt.tag} ELSE {}
  IN (IF r.type # "oidc" THEN {"filter-not-resolved-to-oidc"} ELSE {})
     \cup (IF r.type = "oidc" THEN
            (IF r.cid # "client-" \o cid[2] THEN {"merge-client-id"} ELSE {})
            \cup (IF r.cb # "https://app.test" \o CbPath(cb) THEN {"merge-callback"} ELSE {})
            \cup (IF r.loPath # LoPath(lo) THEN {"merge-logout-path"} ELSE {})
            \cup (IF lo[1] # "absent" /\ r.loRedirect # "https://idp-" \o lo[2] \o ".test/end" THEN {"merge-logout-redirect"} ELSE {})
            \cup (IF r.header # EffHeader(doc, flt) THEN {"merge-id-token-header"} ELSE {})
            \cup (IF r.preamble # EffPreamble(doc, flt) THEN {"merge-id-token-preamble"} ELSE {})
            \cup (IF sec[1] = "literal" /\ r.secret # "literal:secret-" \o sec[2] THEN {"merge-client-secret"} ELSE {})
            \cup (IF sec[1] = "ref" /\ r.secret # "ref:k8s-" \o sec[2] THEN {"merge-client-secret-ref"} ELSE {})
            \cup (IF ep[1] = "explicit" /\ r.authz # "https://idp-" \o ep[2] \o ".test/authorize" THEN {"merge-endpoints"} ELSE {})
            \cup (IF ep[1] = "discovery" /\ r.conf # "https://idp-" \o ep[2] \o ".test/.well-known/openid-configuration" THEN {"merge-discovery"} ELSE {})
            \cup (IF "openid" \notin RangeS(r.scopes) THEN {"openid-scope-missing"} ELSE {})
            \cup (IF ~(ownSc \subseteq RangeS(r.scopes)) THEN {"merge-scopes"} ELSE {})
            \* resolved: nothing a later check could trip over
            \cup (IF r.cid = "" \/ r.secret = "none" \/ r.header = "" \/ ((r.authz = "" \/ r.token = "") /\ r.conf = "") THEN {"accepted-but-not-resolved"} ELSE {})
          ELSE {})

Causes ==
  LET doc == E.doc IN
  IF E.panic THEN {"loader-panics"}
  ELSE IF E.err \/ E.fixture THEN {}      \* mutated fixtures: only "never panics" is judged                      \* rejecting more than required is never an alarm
  ELSE (IF MustReject(doc) THEN {"accepts-document-that-must-be-rejected"} ELSE {})
       \cup (IF E.defaultLeft THEN {"default-section-left-in-place"} ELSE {})
       \cup (IF MustReject(doc) THEN {}
             ELSE UNION {FilterCauses(doc, doc.chains[p[1]][p[2]], E.result[p[1]][p[2]]) : p \in OidcFilters(doc)})

Init == l = 1 /\ viol = {} /\ fired = <<>>
Next ==
  /\ l <= Len(Trace) /\ l' = l + 1
  /\ IF E.ev = "cfg"
     THEN /\ viol' = viol \cup {[p |-> "C17", m |-> "LoadedMeansResolved", cause |-> c, sc |-> E.id, n |-> 0, at |-> l] : c \in Causes}
          /\ fired' = Bump(Bump(fired, "scenarios"), IF E.panic THEN "panic" ELSE IF E.err THEN "rejected" ELSE "accepted")
     ELSE UNCHANGED <<viol, fired>>
Spec == Init /\ [][Next]_vars
Emit == l <= Len(Trace) \/ JsonSerialize(OutFile, [consumed |-> l - 1, len |-> Len(Trace), viol |-> viol, fired |-> fired, drift |-> {}])
=============================================================================
