----------------------------- MODULE RedisStore -----------------------------
(***************************************************************************)
(* The Redis session store at Redis-command granularity (internal/oidc/    *)
(* redis.go): every store operation is a short program of Redis commands   *)
(* on one hash; two replicas of the service run one operation each on the  *)
(* same session id, their commands interleaved by the server.              *)
(*                                                                         *)
(* Each command is atomic (Redis is single-threaded); an operation is not. *)
(* TLC explores every interleaving and checks whether the outcome (final   *)
(* hash, results) is one that some sequential order of the two operations  *)
(* produces.  It is not, for several pairs: these torn outcomes go beyond  *)
(* the listed properties (C12 claims atomicity for the in-memory store     *)
(* only) and are reported as observations; every schedule is printed and   *)
(* replayed against the real store with miniredis' command hook as gate,   *)
(* and RedisPairTrace.tla compares the real outcome with this model's.     *)
(* No session timeouts are configured here (EXPIREAT is not issued).       *)
(***************************************************************************)
EXTENDS Integers, Sequences, FiniteSets, TLC, Json

CONSTANTS Export

OpNames == <<"SetTok", "SetAuth", "GetTok", "GetAuth", "ClearAuth", "Remove">>
Starts == {"absent", "pending", "tokens"}

Clients == {1, 2}
VARIABLES pair, h, pc, res, err, seen, hist
vars == <<pair, h, pc, res, err, seen, hist>>
\* which two operations run, and on what initial content, is chosen in the initial state (ia <= ib: the other order is the same set of schedules)
OpOf(c) == IF c = 1 THEN OpNames[pair.ia] ELSE OpNames[pair.ib]
OpA == OpNames[pair.ia]
OpB == OpNames[pair.ib]
Start == pair.s

\* the hash: field -> value (0 = field absent); the key exists iff some field is present
Fields == {"id", "at", "exp", "rt", "state", "verifier", "ta"}
Empty == [f \in Fields |-> 0]
Exists(hh) == \E f \in Fields : hh[f] # 0

\* the programs: sequences of commands; a write by client c stores the value c (1 or 2), pre-existing data is 9
Prog(op) ==
  CASE op = "SetTok"    -> <<"HSET id", "HSET at", "HSET exp", "HSET rt", "HSETNX ta", "HGET ta", "DEL!">>
    [] op = "SetAuth"   -> <<"HMSET auth", "HSETNX ta", "HGET ta", "DEL!">>
    [] op = "GetTok"    -> <<"HMGET tok", "HGET ta?", "DEL!">>
    [] op = "GetAuth"   -> <<"HMGET auth", "HGET ta?", "DEL!">>
    [] op = "ClearAuth" -> <<"HDEL auth", "HGET ta", "DEL!">>
    [] op = "Remove"    -> <<"DEL">>


StartHash == CASE Start = "absent"  -> Empty
               [] Start = "pending" -> [Empty EXCEPT !.state = 9, !.verifier = 9, !.ta = 9]
               [] Start = "tokens"  -> [Empty EXCEPT !.id = 9, !.at = 9, !.exp = 9, !.rt = 9, !.verifier = 9, !.ta = 9]

Init == pair \in {p \in [ia : 1..6, ib : 1..6, s : Starts] : p.ia <= p.ib} /\ h = StartHash /\ pc = [c \in Clients |-> 1] /\ res = [c \in Clients |-> 0] /\ err = [c \in Clients |-> FALSE]
        /\ seen = [c \in Clients |-> 0] /\ hist = <<>>

Done(c) == pc[c] > Len(Prog(OpOf(c)))

\* one Redis command of client c
Cmd(c) ==
  /\ ~Done(c)
  /\ LET k == Prog(OpOf(c))[pc[c]]
         adv == pc' = [pc EXCEPT ![c] = @ + 1]
         stop == pc' = [pc EXCEPT ![c] = Len(Prog(OpOf(c))) + 1]
     IN
     CASE k = "HSET id" -> h' = [h EXCEPT !.id = c] /\ adv /\ UNCHANGED <<res, err, seen>>
       [] k = "HSET at" -> h' = [h EXCEPT !.at = c] /\ adv /\ UNCHANGED <<res, err, seen>>
       [] k = "HSET exp" -> h' = [h EXCEPT !.exp = c] /\ adv /\ UNCHANGED <<res, err, seen>>
       [] k = "HSET rt" -> h' = [h EXCEPT !.rt = c] /\ adv /\ UNCHANGED <<res, err, seen>>
       [] k = "HMSET auth" -> h' = [h EXCEPT !.state = c, !.verifier = c] /\ adv /\ UNCHANGED <<res, err, seen>>
       [] k = "HSETNX ta" -> h' = (IF h.ta = 0 THEN [h EXCEPT !.ta = c] ELSE h) /\ adv /\ UNCHANGED <<res, err, seen>>
       [] k = "HGET ta" ->   \* refreshExpiration reads the stored creation time; a session without one is deleted (next command) and an error reported
            IF h.ta # 0 THEN stop /\ UNCHANGED <<h, res, err, seen>> ELSE adv /\ UNCHANGED <<h, res, err, seen>>
       [] k = "DEL!" -> h' = Empty /\ err' = [err EXCEPT ![c] = TRUE] /\ res' = [res EXCEPT ![c] = 0] /\ adv /\ UNCHANGED seen
       [] k = "HMGET tok" ->
            IF h.id = 0 THEN res' = [res EXCEPT ![c] = 0] /\ stop /\ UNCHANGED <<h, err, seen>>         \* no ID token: nothing found, no refresh
            ELSE res' = [res EXCEPT ![c] = h.id * 1000 + h.at * 100 + h.exp * 10 + h.rt] /\ seen' = [seen EXCEPT ![c] = h.ta] /\ adv /\ UNCHANGED <<h, err>>
       [] k = "HMGET auth" ->
            IF h.state = 0 \/ h.verifier = 0 THEN res' = [res EXCEPT ![c] = 0] /\ stop /\ UNCHANGED <<h, err, seen>>
            ELSE res' = [res EXCEPT ![c] = h.state * 10 + h.verifier] /\ seen' = [seen EXCEPT ![c] = h.ta] /\ adv /\ UNCHANGED <<h, err>>
       [] k = "HGET ta?" ->  \* the creation time read by HMGET is used; only when it was missing the store asks again
            IF seen[c] # 0 \/ h.ta # 0 THEN stop /\ UNCHANGED <<h, res, err, seen>>
            ELSE adv /\ UNCHANGED <<h, res, err, seen>>
       [] k = "HDEL auth" -> h' = [h EXCEPT !.state = 0] /\ adv /\ UNCHANGED <<res, err, seen>>       \* (the verifier field is not deleted by the store)
       [] k = "DEL" -> h' = Empty /\ adv /\ UNCHANGED <<res, err, seen>>
  /\ hist' = Append(hist, c) /\ UNCHANGED pair

Next == \E c \in Clients : Cmd(c)
Spec == Init /\ [][Next]_vars

---------------------------------------------------------------------------
\* sequential reference: run client a's whole program, then client b's
RECURSIVE RunFrom(_, _, _)
RunFrom(st, c, i) ==  \* st = [h, res, err, seen]
  IF i > Len(Prog(OpOf(c))) THEN st
  ELSE LET k == Prog(OpOf(c))[i]
           hh == st.h
       IN
       CASE k = "HSET id" -> RunFrom([st EXCEPT !.h = [hh EXCEPT !.id = c]], c, i + 1)
         [] k = "HSET at" -> RunFrom([st EXCEPT !.h = [hh EXCEPT !.at = c]], c, i + 1)
         [] k = "HSET exp" -> RunFrom([st EXCEPT !.h = [hh EXCEPT !.exp = c]], c, i + 1)
         [] k = "HSET rt" -> RunFrom([st EXCEPT !.h = [hh EXCEPT !.rt = c]], c, i + 1)
         [] k = "HMSET auth" -> RunFrom([st EXCEPT !.h = [hh EXCEPT !.state = c, !.verifier = c]], c, i + 1)
         [] k = "HSETNX ta" -> RunFrom([st EXCEPT !.h = IF hh.ta = 0 THEN [hh EXCEPT !.ta = c] ELSE hh], c, i + 1)
         [] k = "HGET ta" -> IF hh.ta # 0 THEN st ELSE RunFrom(st, c, i + 1)
         [] k = "DEL!" -> [st EXCEPT !.h = Empty, !.err[c] = TRUE, !.res[c] = 0]
         [] k = "HMGET tok" -> IF hh.id = 0 THEN [st EXCEPT !.res[c] = 0]
                               ELSE RunFrom([st EXCEPT !.res[c] = hh.id * 1000 + hh.at * 100 + hh.exp * 10 + hh.rt, !.seen[c] = hh.ta], c, i + 1)
         [] k = "HMGET auth" -> IF hh.state = 0 \/ hh.verifier = 0 THEN [st EXCEPT !.res[c] = 0]
                                ELSE RunFrom([st EXCEPT !.res[c] = hh.state * 10 + hh.verifier, !.seen[c] = hh.ta], c, i + 1)
         [] k = "HGET ta?" -> IF st.seen[c] # 0 \/ hh.ta # 0 THEN st ELSE RunFrom(st, c, i + 1)
         [] k = "HDEL auth" -> RunFrom([st EXCEPT !.h = [hh EXCEPT !.state = 0]], c, i + 1)
         [] k = "DEL" -> RunFrom([st EXCEPT !.h = Empty], c, i + 1)

St0 == [h |-> StartHash, res |-> [c \in Clients |-> 0], err |-> [c \in Clients |-> FALSE], seen |-> [c \in Clients |-> 0]]
SeqOutcome(a, b) == LET s == RunFrom(RunFrom(St0, a, 1), b, 1) IN [h |-> s.h, res |-> s.res, err |-> s.err]
Outcome == [h |-> h, res |-> res, err |-> err]
Finished == \A c \in Clients : Done(c)
Serializable == Finished => Outcome \in {SeqOutcome(1, 2), SeqOutcome(2, 1)}

PrintSchedule == (Export /\ Finished) =>
  PrintT(<<"SCN", ToJson([opA |-> OpA, opB |-> OpB, start |-> Start, schedule |-> hist, serializable |-> Serializable,
                            model |-> [id |-> h.id, at |-> h.at, exp |-> h.exp, rt |-> h.rt, state |-> h.state, verifier |-> h.verifier, ta |-> h.ta # 0,
                                       resA |-> res[1], resB |-> res[2], errA |-> err[1], errB |-> err[2]]])>>)
=============================================================================
