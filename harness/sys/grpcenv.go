package zzverif

// The service as Envoy reaches it: with "grpc" set in a scenario's configuration the checks travel over a real gRPC
// connection to server.Server (listener, interceptor chain, registered handler) instead of being method calls, and the
// answer is what arrives at the client. The check a store / key-source call belongs to is carried in the request metadata.

import (
	"context"
	"fmt"
	"net"
	"runtime/debug"
	"strconv"
	"time"

	envoy "github.com/envoyproxy/go-control-plane/envoy/service/auth/v3"
	"google.golang.org/grpc"
	"google.golang.org/grpc/codes"
	"google.golang.org/grpc/credentials/insecure"
	"google.golang.org/grpc/metadata"
	"google.golang.org/grpc/status"

	"github.com/istio-ecosystem/authservice/internal/server"
)

const checkMD = "x-verif-check"

// checkOf finds the check a call made by the service belongs to: the context value (direct calls) or the metadata (gRPC).
func (d *driver) checkOf(ctx context.Context) any {
	if v := ctx.Value(checkKey{}); v != nil {
		return v
	}
	if md, ok := metadata.FromIncomingContext(ctx); ok {
		if vs := md.Get(checkMD); len(vs) == 1 {
			if n, err := strconv.Atoi(vs[0]); err == nil {
				d.mu.Lock()
				defer d.mu.Unlock()
				for _, c := range d.checks {
					if c.n == n {
						return c
					}
				}
			}
		}
	}
	return nil
}

// guarded is the registered handler: a panic of the filter is noted on the check (and answered as an internal error)
// instead of taking the harness process down, as it would take the service down.
type guarded struct {
	envoy.UnimplementedAuthorizationServer
	d     *driver
	inner *server.ExtAuthZFilter
}

func (g *guarded) Check(ctx context.Context, req *envoy.CheckRequest) (resp *envoy.CheckResponse, err error) {
	if c, ok := g.d.checkOf(ctx).(*checkRun); ok {
		served := make(chan struct{})
		g.d.serving.Store(c.n, served)
		defer close(served)
	}
	defer func() {
		if r := recover(); r != nil {
			if c, ok := g.d.checkOf(ctx).(*checkRun); ok {
				c.pan, c.stack = r, string(debug.Stack())
			}
			resp, err = nil, status.Error(codes.Internal, fmt.Sprint("panic: ", r))
		}
	}()
	return g.inner.Check(ctx, req)
}

type grpcFront struct {
	d      *driver
	srv    *server.Server
	conn   *grpc.ClientConn
	client envoy.AuthorizationClient
}

func (d *driver) newGrpcFront(e *env, f *server.ExtAuthZFilter) (*grpcFront, error) {
	l, err := net.Listen("tcp", "127.0.0.1:0")
	if err != nil {
		return nil, err
	}
	s := server.New(e.cfg, func(gs *grpc.Server) { envoy.RegisterAuthorizationServer(gs, &guarded{d: d, inner: f}) })
	s.Listen = func() (net.Listener, error) { return l, nil }
	if err := s.PreRun(); err != nil {
		_ = l.Close()
		return nil, err
	}
	go func() { _ = s.Serve() }()
	conn, err := grpc.NewClient(l.Addr().String(), grpc.WithTransportCredentials(insecure.NewCredentials()))
	if err != nil {
		s.GracefulStop()
		return nil, err
	}
	return &grpcFront{d: d, srv: s, conn: conn, client: envoy.NewAuthorizationClient(conn)}, nil
}

// check sends the request and returns what the client received. A client that gives up (a cancelled request) has its
// answer at once while the handler is still running on the server: the check is over only when the handler has returned
// too, as with a direct call - until then the scheduler goes on releasing the gates it reaches.
func (g *grpcFront) check(ctx context.Context, c *checkRun, req *envoy.CheckRequest) (*envoy.CheckResponse, error) {
	resp, err := g.client.Check(metadata.AppendToOutgoingContext(ctx, checkMD, strconv.Itoa(c.n)), req)
	if served, ok := g.d.serving.Load(c.n); ok {
		select {
		case <-served.(chan struct{}):
		case <-time.After(60 * time.Second):
		}
	}
	return resp, err
}

func (g *grpcFront) close() {
	_ = g.conn.Close()
	stopped := make(chan struct{})
	go func() { g.srv.GracefulStop(); close(stopped) }()
	select {
	case <-stopped:
	case <-time.After(20 * time.Second): // a handler that never returns must not hold up the other scenarios
	}
}
