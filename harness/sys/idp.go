package zzverif

import (
	"crypto/rand"
	"crypto/sha256"
	"encoding/base64"
	"encoding/hex"
	"encoding/json"
	"fmt"
	"net/http"
	"net/http/httptest"
	"strings"
	"sync"
)

type login struct {
	sidSym    string
	f         string
	state     string
	nonce     string
	challenge string
	clientID  string
	redirect  string
}

type codeRec struct {
	sym   string
	login *login
	used  bool
}

type rtRec struct {
	sym     string
	family  int
	revoked bool
	login   *login
}

// idp is the simulated identity provider: a strict RFC 6749/7636 token endpoint
// that logs exactly what it was sent, plus discovery and JWKS documents.
type idp struct {
	d   *driver
	srv *httptest.Server

	mu          sync.Mutex
	codes       map[string]*codeRec
	rts         map[string]*rtRec
	family      int
	tokN        int
	nCodes      int
	onDiscovery func() // run once, inside the next discovery request
	mintFor     string // provider id (path prefix) the answer being minted belongs to
	answers     int    // token-endpoint answers sent (every other one declares a charset)
	lastHonest  string // the last honestly signed ID token handed to the service in this scenario

	discoveryOutage int // the next n discovery requests are answered 503
	discoveryHits   int
}

func newIDP(d *driver) *idp {
	p := &idp{d: d}
	mux := http.NewServeMux()
	mux.HandleFunc("/", p.serve)
	p.srv = httptest.NewUnstartedServer(mux)
	// the service builds a new HTTP transport per check; do not let their idle connections pile up
	p.srv.Config.SetKeepAlivesEnabled(false)
	p.srv.Start()
	p.reset()
	return p
}

func (p *idp) reset() {
	p.mu.Lock()
	defer p.mu.Unlock()
	p.codes = map[string]*codeRec{}
	p.lastHonest = ""
	p.rts = map[string]*rtRec{}
	p.family = 0
	p.tokN = 0
	p.nCodes = 0
}

func (p *idp) base(id string) string {
	if id == "" {
		id = "A"
	}
	return p.srv.URL + "/" + id
}

func randMarker(prefix string) string {
	b := make([]byte, 12)
	_, _ = rand.Read(b)
	return prefix + hex.EncodeToString(b)
}

// authorize simulates the browser's visit to the authorization endpoint for a login: a code is minted
// and bound to what the authorization request carried.
func (p *idp) authorize(l *login) (code, sym string) {
	p.mu.Lock()
	defer p.mu.Unlock()
	p.nCodes++
	// (shaped like the codes real providers mint: a slash, base64 with '+', '/', '=' - everything a query must escape)
	code = "4/0A" + randMarker("code-") + "+/x=="
	sym = fmt.Sprintf("code%d", p.nCodes)
	p.codes[code] = &codeRec{sym: sym, login: l}
	p.d.rec.bind("code", code, sym)
	return
}

func (p *idp) serve(w http.ResponseWriter, r *http.Request) {
	parts := strings.SplitN(strings.TrimPrefix(r.URL.Path, "/"), "/", 2)
	if len(parts) != 2 {
		http.NotFound(w, r)
		return
	}
	id, what := parts[0], parts[1]
	switch what {
	case "token":
		p.token(w, r, id)
	case "jwks":
		w.Header().Set("Content-Type", "application/json")
		_, _ = w.Write([]byte(jwksJSON(p.d.keySet())))
	case ".well-known/openid-configuration":
		// the provider (policy) is selected by the query, as some providers do: .../openid-configuration?idp=B
		if q := r.URL.Query().Get("idp"); q != "" {
			id = q
		}
		p.mu.Lock()
		fail := p.discoveryOutage > 0
		if fail {
			p.discoveryOutage--
		}
		p.discoveryHits++
		hook := p.onDiscovery
		p.onDiscovery = nil
		p.mu.Unlock()
		if hook != nil {
			hook() // something happens in the world while the service waits for the discovery document (a Secret is rotated, ...)
		}
		if fail {
			http.Error(w, "discovery unavailable", http.StatusServiceUnavailable)
			return
		}
		doc := map[string]any{
			"issuer":                           p.base(id),
			"authorization_endpoint":           p.base(id) + "/authorize",
			"token_endpoint":                   p.base(id) + "/token",
			"jwks_uri":                         p.base(id) + "/jwks",
			"end_session_endpoint":             p.base(id) + "/discovered-end-session",
			"code_challenge_methods_supported": []string{"S256", "plain"},
		}
		switch r.URL.Query().Get("doc") {
		case "pkcePlainOnly":
			doc["code_challenge_methods_supported"] = []string{"plain"}
		case "noMethods":
			delete(doc, "code_challenge_methods_supported")
		case "plainFirst":
			doc["code_challenge_methods_supported"] = []string{"plain", "S256"}
		case "scopesPartial":
			// a server need not advertise every scope it supports (OpenID Connect Discovery 3): "openid" itself may be missing
			doc["scopes_supported"] = []string{"email", "offline_access"}
		}
		w.Header().Set("Content-Type", "application/json")
		_ = json.NewEncoder(w).Encode(doc)
	default:
		http.NotFound(w, r)
	}
}

func (p *idp) token(w http.ResponseWriter, r *http.Request, idpID string) {
	_ = r.ParseForm()
	d := p.d
	form := r.PostForm
	grant := form.Get("grant_type")

	// client authentication as presented
	authID, authSecret, authKind := "", "", "none"
	if u, s, ok := r.BasicAuth(); ok {
		authID, authSecret, authKind = u, s, "basic"
	} else if form.Get("client_id") != "" {
		authID, authSecret, authKind = form.Get("client_id"), form.Get("client_secret"), "form"
	}

	ev := map[string]any{
		"ev": "idp", "grant": grant, "endpoint": idpID,
		"authKind":    authKind,
		"contentType": r.Header.Get("Content-Type"),
	}

	var owner any
	if d.parallel {
		d.big.Lock()
		if c := d.codeOwner[form.Get("code")]; c != nil {
			owner = c
		} else if c := d.rtReader[form.Get("refresh_token")]; c != nil {
			owner = c
		}
		d.big.Unlock()
	}
	g := d.arrive("idp", map[string]any{"grant": grant, "check": owner})
	ev["n"] = g.check.n
	ev["c"] = g.check.id
	ev["f"] = g.check.f
	ev["clientId"] = d.symClientIDFor(authID, g.check.f)
	ev["clientSecret"] = d.symClientSecretFor(authSecret, g.check.f)
	ans := g.dir.Ans
	if ans == nil {
		ans = &AnsSpec{Mode: "honest", RT: true}
	}
	if ans.KeySet != "" {
		d.setKeySet(ans.KeySet)
	}

	p.mu.Lock()
	var (
		reqOK bool
		lg    *login
		cr    *codeRec
		rr    *rtRec
	)
	switch grant {
	case "authorization_code":
		code := form.Get("code")
		ver := form.Get("code_verifier")
		cr = p.codes[code]
		if s, ok := d.rec.lookup("code", code); ok {
			ev["code"] = s
		} else {
			ev["code"] = "bogus"
		}
		if s, ok := d.rec.lookup("v", ver); ok {
			ev["verifier"] = s
		} else {
			ev["verifier"] = "unknown"
		}
		ev["redirectUri"] = d.symRedirect(form.Get("redirect_uri"))
		ev["rt"] = "none"
		if cr != nil {
			lg = cr.login
			h := sha256.Sum256([]byte(ver))
			reqOK = !cr.used && base64.RawURLEncoding.EncodeToString(h[:]) == lg.challenge &&
				form.Get("redirect_uri") == lg.redirect && authID == lg.clientID &&
				authSecret == d.secretOfClient(authID) && authKind == "basic"
			ev["codeUsedBefore"] = cr.used
		} else {
			ev["codeUsedBefore"] = false
		}
	case "refresh_token":
		rt := form.Get("refresh_token")
		rr = p.rts[rt]
		ev["code"] = "none"
		ev["verifier"] = "none"
		ev["redirectUri"] = "none"
		if rr != nil {
			ev["rt"] = rr.sym
			lg = rr.login
			reqOK = !rr.revoked && authID == lg.clientID && authSecret == d.secretOfClient(authID)
		} else {
			ev["rt"] = "bogus"
		}
	default:
		ev["code"], ev["verifier"], ev["redirectUri"], ev["rt"] = "none", "none", "none", "none"
	}
	ev["reqOK"] = reqOK

	issue := false
	status := 200
	var body []byte
	mode := ans.Mode
	if mode == "" {
		mode = "honest"
	}
	switch {
	case mode == "honest":
		if reqOK {
			issue = true
		} else {
			status, body = 400, []byte(`{"error":"invalid_grant"}`)
		}
	case mode == "lenient":
		issue = true
	case mode == "fail-before" || mode == "drop":
		status, body = 500, []byte(`{"error":"server_error"}`)
	case mode == "fail-after" || mode == "drop-after" || strings.HasPrefix(mode, "fail-after:"):
		issue = reqOK
		status = 500
		if strings.HasPrefix(mode, "fail-after:") {
			_, _ = fmt.Sscanf(mode, "fail-after:%d", &status)
		}
	case strings.HasPrefix(mode, "status:"):
		_, _ = fmt.Sscanf(mode, "status:%d", &status)
		body = []byte(`{"error":"x"}`)
	case strings.HasPrefix(mode, "body:"):
		issue = reqOK
	default:
		panic("unknown answer mode " + mode)
	}

	issued := map[string]any{"ex": false}
	var mintedDoc map[string]any
	if issue {
		if lg == nil {
			// lenient answer to an unknown code / token: invent an anonymous login
			lg = &login{sidSym: "none", f: g.check.f, clientID: authID, nonce: ""}
		}
		if cr != nil {
			cr.used = true
		}
		p.mintFor = idpID
		doc, iss := p.mint(ans, grant, lg, rr)
		issued = iss
		mintedDoc = doc
		if status == 200 && !strings.HasPrefix(mode, "body:") {
			body, _ = json.Marshal(doc)
		}
	}
	if strings.HasPrefix(mode, "body:") {
		cls := strings.TrimPrefix(mode, "body:")
		if strings.HasPrefix(cls, "minted-") && mintedDoc != nil {
			body = mangleMinted(cls, mintedDoc)
		} else {
			body = oddBody(cls)
		}
	}
	p.mu.Unlock()

	// ground truth for the odd-body grammar: is the body a token response at all (a JSON object whose token_type is bearer)?
	shaped := false
	var asObj map[string]any
	if json.Unmarshal(body, &asObj) == nil && asObj != nil {
		if tt, ok := asObj["token_type"].(string); ok && strings.EqualFold(tt, "bearer") {
			shaped = true
		}
	}
	ev["shaped"] = shaped
	ev["answer"] = answerClass(mode, status, issue)
	ev["mode"] = mode
	ev["status"] = status
	ev["issued"] = issued
	ev["keySetNow"] = "k12" // the key set configured for the filter when this answer was given
	if ks := d.keySet(); ks == "k3" && !d.env.spec.RealJwks {
		ev["keySetNow"] = "k3"
	} else if ks == "" || d.env.spec.RealJwks {
		if lgf, ok := ev["f"].(string); ok {
			if fs := d.env.fspec[lgf]; fs != nil && fs.KeySet == "k3" {
				ev["keySetNow"] = "k3"
			}
		}
	}
	if g.check == nil || !g.check.quiet {
		d.rec.emit(ev)
	}

	if mode == "drop" || mode == "drop-after" {
		// transport-level failure: the connection is closed without an answer
		if hj, ok := w.(http.Hijacker); ok {
			if conn, _, err := hj.Hijack(); err == nil {
				_ = conn.Close()
				return
			}
		}
	}
	if strings.HasPrefix(mode, "fail-after") || mode == "fail-before" || mode == "drop" || mode == "drop-after" {
		w.WriteHeader(status)
		_, _ = w.Write([]byte(`{"error":"server_error"}`))
		return
	}
	// RFC 6749 5.1 sends "application/json;charset=UTF-8"; every other answer does so here
	p.mu.Lock()
	p.answers++
	withCharset := p.answers%2 == 0
	p.mu.Unlock()
	if withCharset {
		w.Header().Set("Content-Type", "application/json;charset=UTF-8")
	} else {
		w.Header().Set("Content-Type", "application/json")
	}
	w.WriteHeader(status)
	_, _ = w.Write(body)
}

func answerClass(mode string, status int, issued bool) string {
	switch {
	case strings.HasPrefix(mode, "body:"):
		return "odd"
	case status == 200 && issued:
		return "ok"
	case (strings.HasPrefix(mode, "fail-after") || mode == "drop-after") && issued:
		return "failAfter"
	default:
		return "fail"
	}
}

// mint builds the token-endpoint document and the ground truth of what was issued. Caller holds p.mu.
func (p *idp) mint(ans *AnsSpec, grant string, lg *login, old *rtRec) (map[string]any, map[string]any) {
	d := p.d
	p.tokN++
	n := p.tokN
	now := d.nowSec()
	class := ans.ID
	if class == "" {
		class = "good"
	}
	life := ans.IDLife
	if life == 0 {
		life = 60
	}
	ts := tokenSpec{Class: class, Variant: ans.Variant, Sub: "user-" + lg.sidSym, Iat: d.unix(now), Exp: d.unix(now + int64(life)),
		Jti: randMarker("jti-")}
	if class == "expired" {
		ts.Exp = d.unix(now - 10)
	}
	ts.Iss = p.base(p.mintFor) // the issuer this provider publishes in its discovery document
	if ans.Big {
		ts.Groups = 300
	}
	if ans.IatSkew != 0 {
		ts.Iat += int64(ans.IatSkew)
		ts.Nbf = ts.Iat
	}
	// audience
	audOK := true
	switch class {
	case "audAbsent":
		ts.Aud, audOK = nil, false
	case "audForeign":
		ts.Aud, audOK = pickAny(ans.Variant, "some-other-client", []any{"x", "y"}), false
	case "audForeignAzpClient":
		ts.Aud, audOK = pickAny(ans.Variant, "account", []any{"account", "another-client"}), false
		ts.Azp = lg.clientID
	case "audNearMiss":
		ts.Aud, audOK = pickAny(ans.Variant, lg.clientID+"x", strings.ToUpper(lg.clientID), " "+lg.clientID, []any{lg.clientID + "/"}), false
	case "audArrayWithClient":
		ts.Aud = []any{"another-client", lg.clientID}
	default:
		if ans.AudMulti {
			ts.Aud = []any{lg.clientID, "https://api.example/resource"}
		} else if ans.AudArray {
			ts.Aud = []any{lg.clientID}
		} else {
			ts.Aud = lg.clientID
		}
	}
	// nonce
	nonceSym := "none"
	wantNonce := lg.nonce
	if grant == "refresh_token" {
		switch ans.RfNonce {
		case "absent":
			wantNonce = ""
		case "foreign":
			wantNonce = "foreign-nonce-" + randMarker("")
		}
	}
	switch class {
	case "nonceAbsent":
		ts.Nonce, nonceSym = nil, "absent"
	case "nonceForeign":
		ts.Nonce, nonceSym = "foreign-"+randMarker(""), "foreign"
	case "nonceNearMiss":
		// almost the nonce of this login: other case, a blank around it, a character more or less
		n := lg.nonce
		ts.Nonce, nonceSym = pickAny(ans.Variant, swapCase(n), n+" ", " "+n, n[:len(n)-1], n+"x"), "foreign"
	case "nonceEmpty":
		ts.Nonce, nonceSym = "", "empty"
	case "nonceNonString":
		ts.Nonce, nonceSym = pickAny(ans.Variant, 12345, []any{lg.nonce}, map[string]any{"n": lg.nonce}, true, 1.5), "nonstring"
	default:
		if wantNonce == "" {
			ts.Nonce, nonceSym = nil, "absent"
		} else {
			ts.Nonce = wantNonce
			if s, ok := d.rec.lookup("n", wantNonce); ok {
				nonceSym = s
			} else {
				nonceSym = "foreign"
			}
		}
	}
	// the key set configured for the filter this login belongs to (a scenario-wide key change overrides it)
	effective := d.keySet()
	if d.env.spec.RealJwks {
		effective = "" // the key provider object itself serves the filter: a key-set directive of the scenario does not reach it
	}
	if effective == "" {
		if fs := d.env.fspec[lg.f]; fs != nil {
			effective = fs.KeySet
		}
	}
	ts.SignKey = ans.SignKey
	if ts.SignKey == "" && effective == "k3" {
		ts.SignKey = "k3"
	}
	ts.Graft = p.lastHonest
	idTok, sigOK := mintID(ts)
	if sigOK && class == "good" && ans.Mode == "honest" {
		p.lastHonest = idTok // (the caller holds p.mu)
	}
	// which of the provider's key families signed it honestly (a kept token must still verify when the configured set changes)
	signedBy := "other"
	if sigOK {
		signedBy = "k12"
		if class == "goodK3" || ts.SignKey == "k3" {
			signedBy = "k3"
		}
	}
	switch {
	case class == "goodK3":
		sigOK = effective == "k3"
	case sigOK && ts.SignKey == "k3":
		sigOK = effective == "k3"
	case sigOK:
		sigOK = effective != "k3"
	}
	idSym := fmt.Sprintf("id%d", n)
	d.rec.bind("id", idTok, idSym)
	d.rec.addSecret(idTok, "idToken")

	at := randMarker("AT-")
	atSym := fmt.Sprintf("at%d", n)
	d.rec.bind("at", at, atSym)
	d.rec.addSecret(at, "accessToken")

	doc := map[string]any{}
	tt := ans.TokenType
	if tt == "" {
		tt = "Bearer"
	}
	if tt != "absent" {
		doc["token_type"] = tt
	}
	issued := map[string]any{"ex": true, "grant": grant}
	if !ans.OmitID {
		doc["id_token"] = idTok
		issued["id"] = map[string]any{"ex": true, "sym": idSym, "class": class, "sigOK": sigOK, "audOK": audOK, "signedBy": signedBy,
			"nonce": nonceSym, "exp": now + int64(life), "login": lg.sidSym, "compact": isCompactJWT(idTok)}
		if class == "expired" {
			issued["id"].(map[string]any)["exp"] = now - 10
		}
	} else {
		issued["id"] = map[string]any{"ex": false}
	}
	if !ans.OmitAT {
		doc["access_token"] = at
		issued["at"] = map[string]any{"ex": true, "sym": atSym}
	} else {
		issued["at"] = map[string]any{"ex": false}
	}
	if ans.ExpiresIn != nil {
		doc["expires_in"] = *ans.ExpiresIn
		issued["expiresIn"] = *ans.ExpiresIn
	} else {
		issued["expiresIn"] = -1
	}
	issued["rt"] = map[string]any{"ex": false}
	issued["rotated"] = false
	newRT := func(fam int) {
		rt := randMarker("RT-")
		p.family++
		sym := fmt.Sprintf("rt%d", n)
		p.rts[rt] = &rtRec{sym: sym, family: fam, login: lg}
		d.rec.bind("rt", rt, sym)
		d.rec.addSecret(rt, "refreshToken")
		doc["refresh_token"] = rt
		issued["rt"] = map[string]any{"ex": true, "sym": sym, "family": fam}
	}
	if grant == "authorization_code" {
		if ans.RT {
			newRT(n)
		}
	} else if old != nil {
		if ans.Rotate {
			old.revoked = true
			issued["rotated"] = true
			newRT(old.family)
		}
	} else if ans.RT {
		newRT(n)
	}
	if ans.Big {
		doc["x_long_member"] = strings.Repeat("abcdefghijkl", 1000)
	}
	if ans.Extra {
		doc["scope"] = "openid profile"
		doc["not_before_policy"] = 0
		doc["session_state"] = "abc"
		doc["device_secret"] = "dev"
		doc["nested"] = map[string]any{"a": []any{1, "x", nil}}
	}
	return doc, issued
}

// mangleMinted renders the genuine token response (its tokens are registered secrets) in a form the service cannot decode
// or cannot use: a careless error path would echo it.
func mangleMinted(cls string, doc map[string]any) []byte {
	d := map[string]any{}
	for k, v := range doc {
		d[k] = v
	}
	switch cls {
	case "minted-expStr":
		d["expires_in"] = "3600"
	case "minted-expFloat":
		d["expires_in"] = 1.5
	case "minted-typeArr":
		d["token_type"] = []any{"Bearer"}
	case "minted-bareClaims":
		// the ID token replaced by its bare claims object (what jwt.Parse without verification also accepts)
		if t, ok := d["id_token"].(string); ok {
			if parts := strings.Split(t, "."); len(parts) == 3 {
				if b, err := b64.DecodeString(parts[1]); err == nil {
					d["id_token"] = string(b)
				}
			}
		}
	case "minted-bareMinimal":
		// ... reduced to the claims a validator looks at (no URL, no address: not a single '.' in the whole value)
		if t, ok := d["id_token"].(string); ok {
			if parts := strings.Split(t, "."); len(parts) == 3 {
				if b, err := b64.DecodeString(parts[1]); err == nil {
					var claims map[string]any
					if json.Unmarshal(b, &claims) == nil {
						min := map[string]any{}
						for _, k := range []string{"aud", "nonce", "exp", "iat", "sub"} {
							if v, ok := claims[k]; ok {
								min[k] = v
							}
						}
						if mb, err := json.Marshal(min); err == nil {
							d["id_token"] = string(mb)
						}
					}
				}
			}
		}
	case "minted-jsonJws":
		// the ID token in the JWS JSON serialisation instead of the compact one
		if t, ok := d["id_token"].(string); ok {
			if parts := strings.Split(t, "."); len(parts) == 3 {
				j, _ := json.Marshal(map[string]any{"payload": parts[1], "protected": parts[0], "signature": parts[2]})
				d["id_token"] = string(j)
			}
		}
	}
	b, _ := json.Marshal(d)
	if cls == "minted-trailing" {
		b = append(b, []byte(`}} trailing garbage`)...)
	}
	return b
}

func swapCase(s string) string {
	b := []byte(s)
	for i, c := range b {
		switch {
		case c >= 'a' && c <= 'z':
			b[i] = c - 32
		case c >= 'A' && c <= 'Z':
			b[i] = c + 32
		}
	}
	return string(b)
}

func pickAny(i int, opts ...any) any { return opts[((i%len(opts))+len(opts))%len(opts)] }

// oddBody renders the token-endpoint body classes of Shapes.tla.
func oddBody(class string) []byte {
	switch class {
	case "null":
		return []byte("null")
	case "array":
		return []byte(`[{"id_token":"x"}]`)
	case "string":
		return []byte(`"id_token"`)
	case "number":
		return []byte("42")
	case "bool":
		return []byte("true")
	case "empty":
		return []byte("")
	case "emptyObject":
		return []byte("{}")
	case "truncated":
		return []byte(`{"id_token":"abc","token_type":"Bear`)
	case "notjson":
		return []byte("<html>oops</html>")
	case "wrongTypesNum":
		return []byte(`{"id_token":1,"access_token":2,"token_type":3,"expires_in":"60","refresh_token":4}`)
	case "wrongTypesNull":
		return []byte(`{"id_token":null,"access_token":null,"token_type":"Bearer","expires_in":null,"refresh_token":null}`)
	case "wrongTypesObj":
		return []byte(`{"id_token":{"a":1},"access_token":["x"],"token_type":"Bearer","expires_in":{"x":1}}`)
	case "hugeNumber":
		return []byte(`{"id_token":"a.b.c","access_token":"x","token_type":"Bearer","expires_in":99999999999999999999999999}`)
	case "hugeInt":
		return []byte(`{"id_token":"a.b.c","access_token":"x","token_type":"Bearer","expires_in":9223372036854775807}`)
	case "negative":
		return []byte(`{"id_token":"a.b.c","access_token":"x","token_type":"Bearer","expires_in":-1}`)
	case "floatExp":
		return []byte(`{"id_token":"a.b.c","access_token":"x","token_type":"Bearer","expires_in":1.5}`)
	case "nested":
		return []byte(`{"id_token":"a.b.c","access_token":"x","token_type":"Bearer","extra":` + strings.Repeat("[", 2000) + strings.Repeat("]", 2000) + `}`)
	case "noIdToken":
		return []byte(`{"access_token":"x","token_type":"Bearer","expires_in":60}`)
	case "emptyIdToken":
		return []byte(`{"id_token":"","access_token":"x","token_type":"Bearer","expires_in":60}`)
	case "idTokenTwoDots":
		return []byte(`{"id_token":"..","access_token":"x","token_type":"Bearer","expires_in":60}`)
	case "idTokenJSONPayloadArray":
		return []byte(`{"id_token":"` + jsonSegRaw(`{"alg":"RS256","kid":"k1"}`) + "." + jsonSegRaw(`[1,2,3]`) + `.AAAA","access_token":"x","token_type":"Bearer","expires_in":60}`)
	case "idTokenClaimsOddTypes":
		return []byte(`{"id_token":"` + jsonSegRaw(`{"alg":"RS256","kid":"k1"}`) + "." + jsonSegRaw(`{"aud":{"a":1},"exp":"soon","iat":[1],"nonce":{"x":1},"sub":5}`) + `.AAAA","access_token":"x","token_type":"Bearer","expires_in":60}`)
	case "idTokenExpHuge":
		return []byte(`{"id_token":"` + jsonSegRaw(`{"alg":"RS256","kid":"k1"}`) + "." + jsonSegRaw(`{"aud":"x","exp":1e400,"nonce":"n"}`) + `.AAAA","access_token":"x","token_type":"Bearer","expires_in":60}`)
	case "bom":
		return append([]byte{0xEF, 0xBB, 0xBF}, []byte(`{"token_type":"Bearer"}`)...)
	case "dupKeys":
		return []byte(`{"id_token":"a.b.c","id_token":null,"token_type":"Bearer","token_type":7}`)
	}
	panic("unknown body class " + class)
}

func jsonSegRaw(s string) string { return b64.EncodeToString([]byte(s)) }

// isCompactJWT is a structural check made independently of the JWT library: three segments, the first two
// being base64url-encoded JSON objects.
func isCompactJWT(t string) bool {
	parts := strings.Split(t, ".")
	if len(parts) != 3 {
		return false
	}
	for _, p := range parts[:2] {
		raw, err := base64.RawURLEncoding.DecodeString(strings.TrimRight(p, "="))
		if err != nil {
			return false
		}
		var m map[string]any
		if json.Unmarshal(raw, &m) != nil || m == nil {
			return false
		}
	}
	return true
}
