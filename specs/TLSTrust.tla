------------------------------ MODULE TLSTrust ------------------------------
(***************************************************************************)
(* C20: which certificate authorities the pooled TLS configurations trust, *)
(* as configurations are loaded and a watched CA file is rewritten.        *)
(*                                                                         *)
(* One CA file; settings differ in CA source (none / inline / file), the   *)
(* skip-verify form and the refresh interval.  The design choice of the    *)
(* code is the constant WatcherPerFile: a file has ONE watcher, and        *)
(* loading another configuration that names the file replaces (cancels)    *)
(* it.  With it the invariant Rotation fails for the superseded            *)
(* configuration; with one watcher per configuration it holds.             *)
(* Transition-covering histories and random walks are printed for the      *)
(* driver, which performs real TLS handshakes after every step.            *)
(***************************************************************************)
EXTENDS Integers, Sequences, FiniteSets, TLC, Json

CONSTANTS MaxLen, MaxCfgs, WatcherPerFile, Export

CAs      == {"ca1", "ca2"}
Sources  == {"none", "inline1", "file"}
Skips    == {"absent", "true", "strTrue", "false", "strFalse"}
Settings == [ca : Sources, skip : Skips, interval : {0, 1}]
SkipOn(s) == s.skip \in {"true", "strTrue"}
\* settings that are indistinguishable to the pool (same CA source, same effective skip, same interval) share an entry
Key(s) == [ca |-> s.ca, skip |-> SkipOn(s), interval |-> s.interval]

VARIABLES file,     \* content of the CA file: a CA, or "garbage" (not a certificate)
          pool,     \* Key -> [roots, insecure, nil]
          watch,    \* set of [key, data] : alive watchers of the file
          fresh,    \* TRUE when every alive watcher has polled since the last rewrite
          hist
vars == <<file, pool, watch, fresh, hist>>
view == <<file, pool, watch, fresh>>

\* contents of the CA file: one CA, both (a bundle, as during a roll-over), nothing yet (an empty file), or no certificate at all
Usable == CAs \cup {"bundle"}
Init == /\ file \in {"ca1", "empty"} /\ pool = <<>> /\ watch = {} /\ fresh = TRUE
        /\ hist = <<[op |-> "start", ca |-> "", skip |-> "", interval |-> 0, content |-> file]>>      \* (a history begins by saying what the file holds)
Put(f, k, v) == [x \in (DOMAIN f) \cup {k} |-> IF x = k THEN v ELSE f[x]]
Log(e) == hist' = Append(hist, e)

Load(s) ==
  /\ Cardinality(DOMAIN pool) < MaxCfgs \/ Key(s) \in DOMAIN pool
  /\ ~(s.ca = "file" /\ file = "garbage")                 \* loading an unusable file is an error path, not modelled
  /\ IF Key(s) \in DOMAIN pool THEN UNCHANGED <<pool, watch>>
     ELSE /\ pool' = Put(pool, Key(s), [roots |-> IF s.ca = "inline1" THEN {"ca1"} ELSE IF s.ca = "file" THEN {file} ELSE {},
                                         insecure |-> (s.ca = "none" /\ SkipOn(s)),
                                         nil |-> (s.ca = "none" /\ s.skip = "absent")])
          /\ watch' = IF s.ca # "file" THEN watch
                      ELSE (IF WatcherPerFile THEN {} ELSE watch)                  \* as coded: the file's previous watcher is cancelled
                           \cup (IF s.interval > 0 THEN {[key |-> Key(s), data |-> file]} ELSE {})
  /\ Log([op |-> "load", ca |-> s.ca, skip |-> s.skip, interval |-> s.interval, content |-> ""])
  /\ UNCHANGED <<file, fresh>>

Rewrite(c) ==
  /\ c # file /\ file' = c /\ fresh' = FALSE
  /\ Log([op |-> "rewrite", ca |-> "", skip |-> "", interval |-> 0, content |-> c]) /\ UNCHANGED <<pool, watch>>

\* every alive watcher polls: a changed, usable content replaces the roots of its configuration
Poll ==
  /\ ~fresh /\ fresh' = TRUE
  /\ pool' = [k \in DOMAIN pool |-> IF file \in Usable /\ \E w \in watch : w.key = k /\ w.data # file THEN [pool[k] EXCEPT !.roots = {file}] ELSE pool[k]]
  /\ watch' = {[key |-> w.key, data |-> IF file \in Usable THEN file ELSE w.data] : w \in watch}   \* (unusable content is remembered by the real watcher too; harmless here)
  /\ Log([op |-> "wait", ca |-> "", skip |-> "", interval |-> 0, content |-> ""]) /\ UNCHANGED file

Next == Len(hist) < MaxLen + 1 /\ (\/ \E s \in Settings : Load(s) \/ \E c \in Usable \cup {"garbage"} : Rewrite(c) \/ Poll)
Spec == Init /\ [][Next]_vars

---------------------------------------------------------------------------
\* skip-verify is honoured only without a CA
SkipOnlyWithoutCA == \A k \in DOMAIN pool : pool[k].insecure => (k.ca = "none" /\ k.skip)
\* C20 Rotation: once the interval has elapsed after a rewrite to a usable CA, every configuration that watches the file trusts the new content
Rotation == \A k \in DOMAIN pool : (fresh /\ k.ca = "file" /\ k.interval > 0 /\ file \in Usable) => pool[k].roots = {file}
\* a configuration is watched by at most one watcher
OneWatcherEach == \A k \in DOMAIN pool : Cardinality({w \in watch : w.key = k}) <= 1

PrintTransition == Export => PrintT(<<"SCN", ToJson(hist')>>)
PrintFull == (Export /\ Len(hist) = MaxLen + 1) => PrintT(<<"SCN", ToJson(hist)>>)
=============================================================================
