#!/usr/bin/env python3
"""Re-runs the check of every filed seed (or the given ids) against a scratch worktree and updates meta.json."""
import glob, json, os, subprocess, sys, concurrent.futures
def one(d):
    m = json.load(open(os.path.join(d, "meta.json")))
    p = subprocess.run("/verif/bin/seedtest %s/patch.diff %s quick" % (d, m["property"]), shell=True, capture_output=True, text=True)
    out = p.stdout + p.stderr
    lines = [l for l in out.splitlines() if l.startswith(("VIOLATION", "  monitor", "OK", "INFRA", "PATCH", "EXIT"))]
    m["check"] = {"command": "bin/seedtest seeded/%s/patch.diff %s" % (m["id"], m["property"]), "exit": p.returncode, "detected": p.returncode == 1, "output": lines[:12]}
    json.dump(m, open(os.path.join(d, "meta.json"), "w"), indent=1)
    return m["id"], p.returncode
ids = sys.argv[1:]
dirs = [d for d in sorted(glob.glob("/verif/seeded/*")) if os.path.isdir(d) and os.path.basename(d).startswith("C") and (not ids or os.path.basename(d) in ids or any(os.path.basename(d).startswith(i) for i in ids))]
with concurrent.futures.ThreadPoolExecutor(max_workers=int(os.environ.get("SEED_WORKERS", "3"))) as ex:
    for sid, rc in ex.map(one, dirs):
        print(sid, "check_exit=%s" % rc, flush=True)
