package zzverif

// Further witnesses for Entropy.tla: a slow entropy source (DeriveWhenSourceSlow), a restart of the process
// (DeriveFromEarlierRun) and truly concurrent logins through the real server (DeriveFromSibling).

import (
	"context"
	crand "crypto/rand"
	"crypto/sha256"
	"encoding/binary"
	"encoding/json"
	"fmt"
	"io"
	"net/url"
	"os"
	"os/exec"
	"strings"
	"sync"
	"time"

	envoy "github.com/envoyproxy/go-control-plane/envoy/service/auth/v3"
)

// detReader is an entropy source with known content: block i of the stream is sha256(seed || i). The first `slowReads`
// reads take `delay` each (a source that is slow to answer, as at early boot).
type detReader struct {
	mu        sync.Mutex
	seed      uint64
	n         uint64
	buf       []byte
	slowReads int
	delay     time.Duration
}

func (r *detReader) Read(p []byte) (int, error) {
	r.mu.Lock()
	slow := r.slowReads > 0
	if slow {
		r.slowReads--
	}
	r.mu.Unlock()
	if slow {
		time.Sleep(r.delay)
	}
	r.mu.Lock()
	defer r.mu.Unlock()
	for len(r.buf) < len(p) {
		var b [16]byte
		binary.BigEndian.PutUint64(b[:8], r.seed)
		binary.BigEndian.PutUint64(b[8:], r.n)
		r.n++
		h := sha256.Sum256(b[:])
		r.buf = append(r.buf, h[:]...)
	}
	copy(p, r.buf[:len(p)])
	r.buf = r.buf[len(p):]
	return len(p), nil
}

func withReader(r io.Reader, f func()) {
	old := crand.Reader
	crand.Reader = r
	defer func() { crand.Reader = old }()
	f()
}

func sameLogin(a, b loginValues) bool {
	return a.sid == b.sid && a.nonce == b.nonce && a.state == b.state && a.verifier == b.verifier
}

// witnessSlowSource: if, with a prompt source of known content, the values are a function of that content, they must be
// the same function of it when the source is slow to answer. A generator that falls back to something else while the
// source is slow yields different values. Returns (derived, verdictApplies, what).
func witnessSlowSource() (bool, bool, string) {
	var o1, o1b, o2 loginValues
	withReader(&detReader{seed: 7}, func() { o1 = drawLogin() })
	withReader(&detReader{seed: 7}, func() { o1b = drawLogin() })
	if !sameLogin(o1, o1b) {
		// the generator keeps state of its own (for instance a user-space CSPRNG seeded once): this experiment says nothing
		return false, false, "generator-is-not-a-function-of-the-source-content"
	}
	done := make(chan struct{})
	go func() {
		defer close(done)
		withReader(&detReader{seed: 7, slowReads: 3, delay: 350 * time.Millisecond}, func() { o2 = drawLogin() })
	}()
	select {
	case <-done:
	case <-time.After(60 * time.Second):
		return false, true, "generator-blocks-while-the-source-is-slow" // blocking is failing closed, not a weakness
	}
	if !sameLogin(o1, o2) {
		return true, true, "values-do-not-come-from-the-entropy-source-while-it-is-slow"
	}
	return false, true, "none"
}

// childLogins is what a fresh process prints: the values of its first logins.
func childLogins(n int) []loginValues {
	out := make([]loginValues, 0, n)
	for i := 0; i < n; i++ {
		out = append(out, drawLogin())
	}
	return out
}

func runEntropyChild() {
	ls := childLogins(3)
	var rows [][]string
	for _, l := range ls {
		rows = append(rows, []string{l.sid, l.nonce, l.state, l.verifier})
	}
	b, _ := json.Marshal(rows)
	fmt.Println("ENTROPY-CHILD " + string(b))
}

func spawnChild(self string) ([][]string, error) {
	cmd := exec.Command(self, "-test.run", "^TestEntropyChild$")
	cmd.Env = append(os.Environ(), "VERIF_ENTROPY_CHILD=1")
	out, err := cmd.CombinedOutput()
	if err != nil {
		return nil, fmt.Errorf("child: %v: %s", err, out)
	}
	for _, ln := range strings.Split(string(out), "\n") {
		if strings.HasPrefix(ln, "ENTROPY-CHILD ") {
			var rows [][]string
			if err := json.Unmarshal([]byte(strings.TrimPrefix(ln, "ENTROPY-CHILD ")), &rows); err != nil {
				return nil, err
			}
			return rows, nil
		}
	}
	return nil, fmt.Errorf("child printed no values: %s", out)
}

// witnessRestart: two fresh processes of the service's code issue the same values.
func witnessRestart(self string) (bool, string, error) {
	a, err := spawnChild(self)
	if err != nil {
		return false, "", err
	}
	b, err := spawnChild(self)
	if err != nil {
		return false, "", err
	}
	seen := map[string]bool{}
	for _, row := range a {
		for _, v := range row {
			seen[v] = true
		}
	}
	for _, row := range b {
		for _, v := range row {
			if seen[v] {
				return true, "values-repeat-after-a-restart", nil
			}
		}
	}
	return false, "none", nil
}

// witnessConcurrentServer: cookie-less requests answered in parallel by one server instance; every session id, state and
// nonce handed out must be different from every other.
func witnessConcurrentServer(tmp string, workers, per int) (bool, string, int, error) {
	var doc map[string]any
	_ = json.Unmarshal([]byte(staticOIDC), &doc)
	cfg, err := loadDispatchConfig(map[string]any{"chains": []any{map[string]any{"name": "c", "filters": []any{map[string]any{"oidc": doc}}}}}, tmp)
	if err != nil {
		return false, "", 0, err
	}
	flt, _, err := newFilter(cfg)
	if err != nil {
		return false, "", 0, err
	}
	type vals struct{ sid, state, nonce string }
	res := make([][]vals, workers)
	var wg sync.WaitGroup
	start := make(chan struct{})
	for w := 0; w < workers; w++ {
		wg.Add(1)
		go func(w int) {
			defer wg.Done()
			<-start
			for i := 0; i < per; i++ {
				resp, err := flt.Check(context.Background(), dispatchReq("/x", nil))
				if err != nil || resp.GetDeniedResponse() == nil {
					continue
				}
				var v vals
				for _, h := range resp.GetDeniedResponse().GetHeaders() {
					switch strings.ToLower(h.GetHeader().GetKey()) {
					case "set-cookie":
						c := h.GetHeader().GetValue()
						if i := strings.Index(c, "="); i >= 0 {
							v.sid = strings.SplitN(c[i+1:], ";", 2)[0]
						}
					case "location":
						if u, err := url.Parse(h.GetHeader().GetValue()); err == nil {
							v.state, v.nonce = u.Query().Get("state"), u.Query().Get("nonce")
						}
					}
				}
				res[w] = append(res[w], v)
			}
		}(w)
	}
	close(start)
	wg.Wait()
	seen := map[string]string{}
	n := 0
	for _, l := range res {
		for _, v := range l {
			n++
			for kind, x := range map[string]string{"sid": v.sid, "state": v.state, "nonce": v.nonce} {
				if x == "" {
					continue
				}
				if k0, ok := seen[x]; ok {
					return true, "concurrent-logins-share-a-value:" + k0 + "=" + kind, n, nil
				}
			}
			for kind, x := range map[string]string{"sid": v.sid, "state": v.state, "nonce": v.nonce} {
				if x != "" {
					seen[x] = kind
				}
			}
		}
	}
	if n < workers*per/2 {
		return false, "", n, fmt.Errorf("only %d of %d concurrent logins produced a redirect", n, workers*per)
	}
	return false, "none", n, nil
}

var _ = envoy.CheckRequest{}
