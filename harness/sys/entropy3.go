package zzverif

// Relation witnesses for Entropy.tla (DeriveFromPublic / DeriveFromSibling): what an attacker tries first on the values of
// real logins obtained through the real server - is a secret an encoding of a public value, of the request time, or the
// image of an earlier value under a common hash?

import (
	"bytes"
	"context"
	"crypto/md5"
	"crypto/sha1"
	"crypto/sha256"
	"crypto/sha512"
	"encoding/base64"
	"encoding/hex"
	"encoding/json"
	"fmt"
	"math/big"
	"net/url"
	"strconv"
	"strings"
	"time"
)

type issuedLogin struct {
	sid, state, nonce string
	t0, t1            time.Time
}

// serverLogins answers n cookie-less requests, one after the other, through a real server instance.
func serverLogins(tmp string, n int) ([]issuedLogin, error) {
	var doc map[string]any
	_ = json.Unmarshal([]byte(staticOIDC), &doc)
	cfg, err := loadDispatchConfig(map[string]any{"chains": []any{map[string]any{"name": "c", "filters": []any{map[string]any{"oidc": doc}}}}}, tmp)
	if err != nil {
		return nil, err
	}
	flt, _, err := newFilter(cfg)
	if err != nil {
		return nil, err
	}
	var out []issuedLogin
	for i := 0; i < n; i++ {
		t0 := time.Now()
		resp, err := flt.Check(context.Background(), dispatchReq("/x", nil))
		t1 := time.Now()
		if err != nil || resp.GetDeniedResponse() == nil {
			continue
		}
		l := issuedLogin{t0: t0, t1: t1}
		for _, h := range resp.GetDeniedResponse().GetHeaders() {
			switch strings.ToLower(h.GetHeader().GetKey()) {
			case "set-cookie":
				c := h.GetHeader().GetValue()
				if j := strings.Index(c, "="); j >= 0 {
					l.sid = strings.SplitN(c[j+1:], ";", 2)[0]
				}
			case "location":
				if u, err := url.Parse(h.GetHeader().GetValue()); err == nil {
					l.state, l.nonce = u.Query().Get("state"), u.Query().Get("nonce")
				}
			}
		}
		if l.sid != "" {
			out = append(out, l)
		}
	}
	if len(out) < n/2 {
		return nil, fmt.Errorf("only %d of %d requests produced a login redirect", len(out), n)
	}
	return out, nil
}

var base62Alphabets = []string{
	"0123456789ABCDEFGHIJKLMNOPQRSTUVWXYZabcdefghijklmnopqrstuvwxyz",
	"0123456789abcdefghijklmnopqrstuvwxyzABCDEFGHIJKLMNOPQRSTUVWXYZ",
	"abcdefghijklmnopqrstuvwxyzABCDEFGHIJKLMNOPQRSTUVWXYZ0123456789",
	"ABCDEFGHIJKLMNOPQRSTUVWXYZabcdefghijklmnopqrstuvwxyz0123456789",
}

// forms lists the byte strings a value may stand for: itself, and what it decodes to under the usual encodings.
func forms(v string) [][]byte {
	out := [][]byte{[]byte(v)}
	for _, enc := range []*base64.Encoding{base64.RawURLEncoding, base64.URLEncoding, base64.RawStdEncoding, base64.StdEncoding} {
		if b, err := enc.DecodeString(v); err == nil && len(b) >= 8 {
			out = append(out, b)
		}
	}
	if b, err := hex.DecodeString(v); err == nil && len(b) >= 8 {
		out = append(out, b)
	}
	for _, al := range base62Alphabets {
		for _, n := range []int{len(v), 43, 44, 22} {
			if n > len(v) || n < 16 {
				continue
			}
			x, ok := new(big.Int), true
			for _, r := range v[:n] {
				i := strings.IndexRune(al, r)
				if i < 0 {
					ok = false
					break
				}
				x.Mul(x, big.NewInt(62)).Add(x, big.NewInt(int64(i)))
			}
			if ok {
				b := x.Bytes()
				out = append(out, b)
				if len(b) < 32 {
					out = append(out, append(make([]byte, 32-len(b)), b...))
				}
			}
		}
	}
	return out
}

func hashes(b []byte) [][]byte {
	a := sha256.Sum256(b)
	c := sha512.Sum512(b)
	d := sha1.Sum(b)
	e := md5.Sum(b)
	f := sha512.Sum512_256(b)
	return [][]byte{a[:], c[:], d[:], e[:], f[:]}
}

// witnessEncodedPublic: a public value (state, nonce) that, decoded, contains the session id or a long piece of it - or the reverse.
func witnessEncodedPublic(ls []issuedLogin) (bool, string) {
	for _, l := range ls {
		if len(l.sid) < 16 {
			continue
		}
		for name, p := range map[string]string{"state": l.state, "nonce": l.nonce} {
			for _, pf := range forms(p) {
				for _, sf := range forms(l.sid) {
					if len(sf) >= 16 && len(pf) >= 16 && ((nontrivial(sf[:16]) && bytes.Contains(pf, sf[:16])) || (nontrivial(pf[:16]) && bytes.Contains(sf, pf[:16]))) {
						return true, "session-id-readable-from-the-" + name + "-of-the-same-login"
					}
				}
			}
		}
	}
	return false, "none"
}

// witnessEncodedTime: a value that spells out the time of the request (seconds to nanoseconds, decimal or hexadecimal, anywhere in it).
func witnessEncodedTime(ls []issuedLogin) (bool, string) {
	hits := map[string]int{}
	for _, l := range ls {
		for name, v := range map[string]string{"sid": l.sid, "state": l.state, "nonce": l.nonce} {
			for _, unit := range []struct {
				name string
				lo   int64
				hi   int64
			}{{"s", l.t0.Unix() - 2, l.t1.Unix() + 2}, {"ms", l.t0.UnixMilli() - 2000, l.t1.UnixMilli() + 2000},
				{"us", l.t0.UnixMicro() - 2e6, l.t1.UnixMicro() + 2e6}, {"ns", l.t0.UnixNano() - 2e9, l.t1.UnixNano() + 2e9}} {
				for _, base := range []int{10, 16} {
					for width := 8; width <= 19; width++ {
						for i := 0; i+width <= len(v); i++ {
							if x, err := strconv.ParseInt(v[i:i+width], base, 64); err == nil && x >= unit.lo && x <= unit.hi && x > 1e9 {
								hits[name+"-spells-the-request-time-in-"+unit.name]++
							}
						}
					}
				}
			}
		}
	}
	for k, n := range hits {
		if n >= len(ls)/2 && n >= 8 { // (a random value may hit a two-second window in seconds by chance once in a while; half of all logins cannot)
			return true, k
		}
	}
	return false, "none"
}

// witnessHashSuccessor: a value (or a later part of the same value) that is the image, under a common hash, of what was issued
// just before it - a hash chain whose links are handed out. Compared in the encoded domain, so that truncated links show too.
func witnessHashSuccessor(ls []issuedLogin) (bool, string) {
	type val struct{ name, s string }
	var seq []val
	for i, l := range ls {
		if i >= 40 {
			break
		}
		seq = append(seq, val{"sid", l.sid}, val{"nonce", l.nonce}, val{"state", l.state})
	}
	encodings := func(h []byte) []string {
		out := []string{hex.EncodeToString(h), base64.RawURLEncoding.EncodeToString(h), base64.RawStdEncoding.EncodeToString(h)}
		for _, al := range base62Alphabets {
			x := new(big.Int).SetBytes(h)
			base, rem := big.NewInt(62), new(big.Int)
			var digits []byte
			for x.Sign() > 0 {
				x.DivMod(x, base, rem)
				digits = append([]byte{al[rem.Int64()]}, digits...)
			}
			out = append(out, string(digits))
			for len(digits) < 43 {
				digits = append([]byte{al[0]}, digits...)
			}
			out = append(out, string(digits))
		}
		return out
	}
	hits, what := 0, ""
	for i := range seq {
		// the byte strings the value (or its leading 43 / 44 / 22 characters) may stand for
		for _, a := range forms(seq[i].s) {
			if len(a) < 16 || !nontrivial(a[:16]) {
				continue
			}
			for _, h := range hashes(a) {
				for _, e := range encodings(h) {
					if len(e) < 16 {
						continue
					}
					for j := i; j < len(seq) && j <= i+6; j++ {
						w := seq[j].s
						if j == i && len(w) > 43 {
							w = w[43:] // the rest of the same value, after its first link
						} else if j == i {
							continue
						}
						if len(w) >= 16 && (strings.Contains(w, e[:16]) || strings.HasPrefix(e, w[:16])) {
							hits++
							what = fmt.Sprintf("%s-continues-with-a-hash-of-an-earlier-%s", seq[j].name, seq[i].name)
						}
					}
				}
			}
		}
	}
	if hits >= 5 {
		return true, what
	}
	return false, "none"
}

// nontrivial: sixteen bytes that are not padding (at least eight different values among them)
func nontrivial(b []byte) bool {
	seen := map[byte]bool{}
	for _, x := range b {
		seen[x] = true
	}
	return len(seen) >= 8
}
