---------------------------- MODULE DispatchOps ----------------------------
(***************************************************************************)
(* The documented request-dispatch functions of authservice, transcribed   *)
(* to TLA+ (C07, C08): which requests trigger authentication, and which    *)
(* chain judges a triggered request.  Strings are sequences of one-        *)
(* character strings so that TLC can look inside them.                     *)
(***************************************************************************)
EXTENDS Integers, Sequences, FiniteSets

IsPrefixOf(p, s) == Len(p) <= Len(s) /\ SubSeq(s, 1, Len(p)) = p
IsSuffixOf(p, s) == Len(p) <= Len(s) /\ SubSeq(s, Len(s) - Len(p) + 1, Len(s)) = p
Contains(p, s)   == \E i \in 0..(Len(s) - Len(p)) : SubSeq(s, i + 1, i + Len(p)) = p

\* index of the first occurrence of a character of set cs, or Len(s)+1
FirstOf(cs, s) == IF \E i \in DOMAIN s : s[i] \in cs THEN CHOOSE i \in DOMAIN s : s[i] \in cs /\ \A j \in 1..(i - 1) : s[j] \notin cs
                  ELSE Len(s) + 1

\* the path component of a request target path[?query][#fragment]
PathOf(t) == SubSeq(t, 1, FirstOf({"?", "#"}, t) - 1)

\* pattern kinds; the regex fragment covers anchored / unanchored literals without metacharacters, and invalid expressions
Match(pat, path) ==
  CASE pat.kind = "exact"  -> pat.lit = path
    [] pat.kind = "prefix" -> IsPrefixOf(pat.lit, path)
    [] pat.kind = "suffix" -> IsSuffixOf(pat.lit, path)
    [] pat.kind = "reContains" -> Contains(pat.lit, path)      \* regex "lit"
    [] pat.kind = "rePrefix"   -> IsPrefixOf(pat.lit, path)    \* regex "^lit"
    [] pat.kind = "reSuffix"   -> IsSuffixOf(pat.lit, path)    \* regex "lit$"
    [] pat.kind = "reExact"    -> pat.lit = path               \* regex "^lit$"
    [] pat.kind = "reInvalid"  -> FALSE                        \* does not compile: never matches
    [] OTHER -> FALSE

RuleMatches(r, path) ==
  /\ ~\E i \in DOMAIN r.excl : Match(r.excl[i], path)
  /\ (r.incl = <<>> \/ \E i \in DOMAIN r.incl : Match(r.incl[i], path))

\* C07: authentication is triggered iff there are no rules, the path is empty, or some rule matches -- on the path alone
\* ("the path" is the path component: a target that is only a query or a fragment has an empty path)
Triggered(rules, target) ==
  rules = <<>> \/ PathOf(target) = <<>> \/ \E i \in DOMAIN rules : RuleMatches(rules[i], PathOf(target))

---------------------------------------------------------------------------
\* C08: the first chain whose criterion holds judges; all its filters must allow; first denial is returned
Hdr(hdrs, name) == IF name \in DOMAIN hdrs THEN hdrs[name] ELSE <<>>   \* absent = empty; names are lower-case in hdrs

ChainMatches(c, hdrs) ==
  CASE c.crit = "none"   -> TRUE
    [] c.crit = "eq"     -> Hdr(hdrs, c.hdrLower) = c.val
    [] c.crit = "prefix" -> IsPrefixOf(c.val, Hdr(hdrs, c.hdrLower))

\* verdict of a filter list: <<outcome, number of OIDC filters reached>>
RECURSIVE RunFilters(_, _, _)
RunFilters(fs, i, reached) ==
  IF i > Len(fs) THEN <<"ok", reached>>
  ELSE IF fs[i] = "allow" THEN RunFilters(fs, i + 1, reached)
  ELSE IF fs[i] = "deny" THEN <<"mockDeny", reached>>
  ELSE IF fs[i] = "broken" THEN <<"error", reached>>   \* a filter that cannot be set up (its provider's discovery is down) has not allowed: an error, never OK
  ELSE <<"oidcRedirect", reached + 1>>            \* an OIDC filter without a session cookie answers with the login redirect

Judge(chains, allowUnmatched, hdrs) ==
  IF \E i \in DOMAIN chains : ChainMatches(chains[i], hdrs)
  THEN LET k == CHOOSE i \in DOMAIN chains : ChainMatches(chains[i], hdrs) /\ \A j \in 1..(i - 1) : ~ChainMatches(chains[j], hdrs)
       IN RunFilters(chains[k].filters, 1, 0)
  ELSE <<IF allowUnmatched THEN "ok" ELSE "unmatchedDeny", 0>>
=============================================================================
