----------------------------- MODULE BinaryTrace -----------------------------
(***************************************************************************)
(* C10 at the level of the assembled service: the binary built from ./cmd, *)
(* started with a real configuration file and driven over gRPC in real     *)
(* time.  Only answers and the wall clock (milliseconds since the login)   *)
(* are known.  A session is never honoured later than creation + absolute  *)
(* or last use + idle (one second of granularity and scheduling slack      *)
(* aside), and a session well inside both limits is not dropped.           *)
(***************************************************************************)
EXTENDS Integers, Sequences, FiniteSets, TLC, Json
CONSTANTS TraceFile, OutFile
Trace == ndJsonDeserialize(TraceFile)
VARIABLES l, cfg, lastUse, alive, viol, fired
vars == <<l, cfg, lastUse, alive, viol, fired>>
E == Trace[l]
Bump(f, k) == IF k \in DOMAIN f THEN [f EXCEPT ![k] = @ + 1] ELSE [x \in DOMAIN f \cup {k} |-> IF x = k THEN 1 ELSE f[x]]
Slack == 1200   \* ms

Late(t)   == (cfg.abs > 0 /\ t > cfg.abs * 1000 + Slack) \/ (cfg.idle > 0 /\ t > lastUse + cfg.idle * 1000 + Slack)
Inside(t) == (cfg.abs = 0 \/ t + Slack < cfg.abs * 1000) /\ (cfg.idle = 0 \/ t + Slack < lastUse + cfg.idle * 1000)

Causes ==
  IF E.outcome = "ok" /\ Late(E.ms) THEN {"honoured-after-timeout@binary:" \o cfg.store}
  ELSE IF E.outcome # "ok" /\ alive /\ Inside(E.ms) THEN {"dropped-inside-both-limits@binary:" \o cfg.store}
  ELSE {}

Init == l = 1 /\ cfg = [scenario |-> "none", store |-> "none", abs |-> 0, idle |-> 0] /\ lastUse = 0 /\ alive = FALSE /\ viol = {} /\ fired = <<>>
Next ==
  /\ l <= Len(Trace) /\ l' = l + 1
  /\ CASE E.ev = "breset" -> cfg' = [scenario |-> E.scenario, store |-> E.store, abs |-> E.abs, idle |-> E.idle] /\ lastUse' = 0 /\ alive' = FALSE
                             /\ fired' = Bump(fired, "scenarios") /\ UNCHANGED viol
       [] E.ev = "blogin" -> alive' = TRUE /\ lastUse' = 0 /\ UNCHANGED <<cfg, viol, fired>>
       [] E.ev = "bprobe" ->
            /\ viol' = viol \cup {[p |-> "C10", m |-> "AssembledService", cause |-> c, sc |-> cfg.scenario, n |-> E.ms, at |-> l] : c \in Causes}
            /\ lastUse' = IF E.outcome = "ok" THEN E.ms ELSE lastUse
            /\ alive' = (alive /\ E.outcome = "ok")
            /\ fired' = Bump(fired, "probe:" \o E.outcome) /\ UNCHANGED cfg
       [] OTHER -> UNCHANGED <<cfg, lastUse, alive, viol, fired>>
Spec == Init /\ [][Next]_vars
Emit == l <= Len(Trace) \/ JsonSerialize(OutFile, [consumed |-> l - 1, len |-> Len(Trace), viol |-> viol, fired |-> fired, drift |-> {}])
=============================================================================
