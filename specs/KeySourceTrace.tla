-------------------------- MODULE KeySourceTrace ----------------------------
(***************************************************************************)
(* Trace validation of the real key provider (DefaultJWKSProvider over the *)
(* jwk cache) against KeySource.tla.  The driver logs, in program order,   *)
(* what the provider's sources did (rotate, mode), the waits it made and   *)
(* the result of every lookup (which key set came back, identified by the  *)
(* key ids it contains).  The background refreshes of the real code are    *)
(* not logged - they cannot be, they happen inside a library goroutine -   *)
(* so they are silent steps here: the interval may elapse and a refresh    *)
(* may run between any two logged events.  After a logged `wait` (the      *)
(* driver let more than interval + refresh window pass) the refresh round  *)
(* must have happened.  TLC searches for a placement of the silent steps   *)
(* that explains every logged lookup, reusing the actions of KeySource.    *)
(* A lookup no placement explains stops the search; the high-water mark    *)
(* of the consumed position is the verdict.                                *)
(***************************************************************************)
EXTENDS KeySource

CONSTANTS TraceFile, OutFile
Trace == ndJsonDeserialize(TraceFile)

VARIABLES l,      \* position in the trace
          seen,   \* seen[u]: some lookup of u has already succeeded (deterministic, logged)
          odd     \* lookups that erred although the model says keys were available (availability, not safety)
tvars == <<vars, l, seen, odd>>

E == Trace[l]
Ev(e) == l <= Len(Trace) /\ E.ev = e /\ l' = l + 1


TInit == Init /\ l = 1 /\ seen = [u \in Uris |-> FALSE] /\ odd = {}
TInitL == TLCSet(1, 0) /\ TInit

TReset == /\ Ev("jreset")
          /\ srv' = [u \in Uris |-> [gen |-> 1, mode |-> "ok"]] /\ reg' = [u \in Uris |-> FALSE] /\ got' = [u \in Uris |-> 0]
          /\ due' = [u \in Uris |-> FALSE] /\ tried' = [u \in Uris |-> FALSE] /\ last' = [f |-> "none", k |-> "none", u |-> "", g |-> 0] /\ hist' = <<>>
          /\ seen' = [u \in Uris |-> FALSE] /\ UNCHANGED odd

TEnd == Ev("end") /\ UNCHANGED <<vars, seen, odd>>

\* a lookup that returned a key set: the model's lookup, with the logged result
TGetOk ==
  /\ Ev("get") /\ E.res # "err"
  /\ (GetStatic(E.f) \/ GetFetched(E.f))
  /\ last'.k = "set" /\ last'.u = E.uri /\ last'.g = E.gen
  /\ seen' = IF UriOf[E.f] \in Uris THEN [seen EXCEPT ![UriOf[E.f]] = TRUE] ELSE seen
  /\ UNCHANGED odd

\* a lookup that erred.  Explained by the model while nothing can have been cached for good (no lookup of that source
\* has succeeded yet); once one has, an error is an availability oddity (the check fails closed), recorded and consumed.
TGetErr ==
  /\ Ev("get") /\ E.res = "err"
  /\ LET u == UriOf[E.f] IN
       IF u \in Uris /\ ~seen[u]
       THEN GetFetched(E.f) /\ last'.k = "err" /\ UNCHANGED <<seen, odd>>
       ELSE odd' = odd \cup {l} /\ UNCHANGED <<vars, seen>>

TRotate == Ev("rotate") /\ Rotate(E.u) /\ srv'[E.u].gen = E.gen /\ UNCHANGED <<seen, odd>>
TMode   == Ev("mode") /\ SetMode(E.u, E.m) /\ UNCHANGED <<seen, odd>>

\* a logged wait: the interval elapsed and the refresh round ran (Tick followed by Refresh of every due source)
TWait ==
  /\ Ev("wait")
  /\ got' = [u \in Uris |-> IF reg[u] /\ srv[u].mode = "ok" THEN srv[u].gen ELSE got[u]]
  /\ due' = [u \in Uris |-> FALSE]
  /\ hist' = Append(hist, [op |-> "wait"])
  /\ UNCHANGED <<srv, reg, tried, last, seen, odd>>

\* silent steps: time passes between logged events
SilentTick(u) == reg[u] /\ ~due[u] /\ due' = [due EXCEPT ![u] = TRUE] /\ UNCHANGED <<srv, reg, got, tried, last, hist, l, seen, odd>>
SilentRefresh(u) == Refresh(u) /\ UNCHANGED <<l, seen, odd>>
SilentWarm(u) == Warm(u) /\ UNCHANGED <<l, seen, odd>>

TNext == TReset \/ TEnd \/ TGetOk \/ TGetErr \/ TRotate \/ TMode \/ TWait
         \/ \E u \in Uris : SilentTick(u) \/ SilentRefresh(u) \/ SilentWarm(u)
TSpec == TInit /\ [][TNext]_tvars

\* every state the search reaches satisfies the design invariants of KeySource
TInv == OwnKeysOnly /\ Served /\ StaticIsStatic

\* high-water mark of the trace position (register 1)
Mark == (IF l > TLCGet(1) THEN TLCSet(1, l) ELSE TRUE)
\* the verdict is written whenever the end of the trace is reached (the oddities of the first path to get there)
Done == (l = Len(Trace) + 1) => JsonSerialize(OutFile, [consumed |-> l - 1, len |-> Len(Trace), odd |-> odd])
Post == TLCGet(1) = Len(Trace) + 1 \/ JsonSerialize(OutFile, [consumed |-> TLCGet(1) - 1, len |-> Len(Trace), odd |-> {}])
=============================================================================
