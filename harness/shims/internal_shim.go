//go:build verif

package internal

// VerifAliveWatchers returns, for a TLS configuration pool, the number of file watchers that are registered and whose
// context has not been cancelled, per watched file id.
func VerifAliveWatchers(p TLSConfigPool) map[string]int {
	out := map[string]int{}
	tp, ok := p.(*tlsConfigPool)
	if !ok || tp.caWatcher == nil {
		return out
	}
	tp.caWatcher.mu.Lock()
	defer tp.caWatcher.mu.Unlock()
	for id, w := range tp.caWatcher.watchers {
		if w.ctx.Err() == nil {
			out[id]++
		}
	}
	return out
}
