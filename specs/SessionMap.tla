----------------------------- MODULE SessionMap -----------------------------
(***************************************************************************)
(* The reference both session stores are held to (C12, C10): a plain map   *)
(* from session id to {login state, tokens, created, last used} with an    *)
(* absolute and an idle limit.                                             *)
(*                                                                         *)
(* It is used in two ways.  (1) As a design specification: TLC checks that *)
(* reads never honour a session beyond its limits, that activity never     *)
(* moves `created`, that ids do not interfere.  (2) As a test generator in *)
(* the style of "one implementation test per transition": with `hist`      *)
(* hidden by the VIEW, TLC visits every abstract state once (breadth       *)
(* first, so `hist` is a shortest way into it) and the action constraint   *)
(* PrintTransition prints, for EVERY transition of the state graph, the    *)
(* operation sequence that takes the real store through it.  The recorded  *)
(* results are judged by StoreTrace.tla.                                   *)
(***************************************************************************)
EXTENDS Integers, Sequences, FiniteSets, TLC, Json

CONSTANTS Sids, Toks, Auths, Abs, Idle, MaxTime, MaxLen, Export

VARIABLES map, now, hist

None == [ex |-> FALSE, auth |-> 0, tok |-> 0, created |-> 0, lu |-> 0]

Live(s, t) == s.ex /\ (Abs = 0 \/ t <= s.created + Abs) /\ (Idle = 0 \/ t <= s.lu + Idle)
See(sid)   == IF Live(map[sid], now) THEN map[sid] ELSE None

Init == map = [s \in Sids |-> None] /\ now = 0 /\ hist = <<>>

Op(name, sid, v, res) == [op |-> name, sid |-> sid, v |-> v, res |-> res]
Log(r) == hist' = Append(hist, r)

SetTok(s, v) ==
  /\ map' = [map EXCEPT ![s] = IF See(s).ex THEN [See(s) EXCEPT !.tok = v, !.lu = now]
                               ELSE [ex |-> TRUE, auth |-> 0, tok |-> v, created |-> now, lu |-> now]]
  /\ Log(Op("SetTok", s, v, 0)) /\ UNCHANGED now

SetAuth(s, a) ==
  /\ map' = [map EXCEPT ![s] = IF See(s).ex THEN [See(s) EXCEPT !.auth = a, !.lu = now]
                               ELSE [ex |-> TRUE, auth |-> a, tok |-> 0, created |-> now, lu |-> now]]
  /\ Log(Op("SetAuth", s, a, 0)) /\ UNCHANGED now

GetTok(s) ==
  /\ map' = [map EXCEPT ![s] = IF See(s).ex THEN [See(s) EXCEPT !.lu = now] ELSE None]
  /\ Log(Op("GetTok", s, 0, See(s).tok)) /\ UNCHANGED now

GetAuth(s) ==
  /\ map' = [map EXCEPT ![s] = IF See(s).ex THEN [See(s) EXCEPT !.lu = now] ELSE None]
  /\ Log(Op("GetAuth", s, 0, See(s).auth)) /\ UNCHANGED now

ClearAuth(s) ==
  /\ map' = [map EXCEPT ![s] = IF See(s).ex THEN [See(s) EXCEPT !.auth = 0, !.lu = now] ELSE None]
  /\ Log(Op("ClearAuth", s, 0, 0)) /\ UNCHANGED now

Remove(s) ==
  /\ map' = [map EXCEPT ![s] = None]
  /\ Log(Op("Remove", s, 0, 0)) /\ UNCHANGED now

Tick ==
  /\ now < MaxTime /\ now' = now + 1
  /\ Log([op |-> "tick", sid |-> 0, v |-> 1, res |-> 0]) /\ UNCHANGED map

Next ==
  /\ Len(hist) < MaxLen
  /\ \/ \E s \in Sids : (\E v \in Toks : SetTok(s, v)) \/ (\E a \in Auths : SetAuth(s, a))
                        \/ GetTok(s) \/ GetAuth(s) \/ ClearAuth(s) \/ Remove(s)
     \/ Tick

Spec == Init /\ [][Next]_<<map, now, hist>>
view == <<map, now>>

---------------------------------------------------------------------------
\* what a reader can obtain never belongs to a session beyond its limits
NeverHonouredLate == \A s \in Sids : See(s).ex => Live(map[s], now)
\* activity extends only the idle limit: created changes only when the session is (re)created
CreatedFixed == [][\A s \in Sids : (See(s).ex /\ map'[s].ex /\ hist'[Len(hist')].op # "Remove") => map'[s].created = See(s).created]_<<map, now, hist>>
\* ids do not interfere
NoInterference == [][\A s \in Sids : (hist'[Len(hist')].op # "tick" /\ hist'[Len(hist')].sid # s) => map'[s] = map[s]]_<<map, now, hist>>
\* removing erases everything; clearing keeps the tokens
RemoveErases == [][\A s \in Sids : (hist'[Len(hist')].op = "Remove" /\ hist'[Len(hist')].sid = s) => map'[s] = None]_<<map, now, hist>>
ClearKeepsTok == [][\A s \in Sids : (hist'[Len(hist')].op = "ClearAuth" /\ hist'[Len(hist')].sid = s /\ See(s).ex) => map'[s].tok = See(s).tok]_<<map, now, hist>>

PrintTransition == Export => PrintT(<<"SCN", ToJson(hist')>>)
=============================================================================
