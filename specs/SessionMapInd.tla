--------------------------- MODULE SessionMapInd ---------------------------
(***************************************************************************)
(* The abstract session map of SessionMap.tla once more, typed for         *)
(* Apalache and without bounds on time or on the length of a history: the  *)
(* properties TLC checks on SessionMap for a few ticks are shown here to   *)
(* be INDUCTIVE (Init => IndInv; IndInv /\ Next => IndInv'), and the       *)
(* action properties to follow from IndInv in one step.                    *)
(*   apalache-mc check --init=IndInit --inv=IndInv --length=1 ...          *)
(***************************************************************************)
EXTENDS Integers, Apalache

CONSTANTS
  \* @type: Set(Str);
  Sids,
  \* @type: Set(Int);
  Toks,
  \* @type: Set(Int);
  Auths,
  \* @type: Int;
  Abs,
  \* @type: Int;
  Idle

VARIABLES
  \* @typeAlias: sess = { ex: Bool, auth: Int, tok: Int, created: Int, lu: Int };
  \* @type: Str -> $sess;
  map,
  \* @type: Int;
  now,
  \* the last operation (what hist'[Len(hist')] is in SessionMap)
  \* @type: { op: Str, sid: Str };
  last

ConstInit == Sids = {"s1", "s2", "s3"} /\ Toks = {1, 2, 3} /\ Auths = {1, 2, 3} /\ Abs \in {0, 7, 20} /\ Idle \in {0, 5, 12}

\* @type: $sess;
None == [ex |-> FALSE, auth |-> 0, tok |-> 0, created |-> 0, lu |-> 0]
\* @type: ($sess, Int) => Bool;
Live(s, t) == s.ex /\ (Abs = 0 \/ t <= s.created + Abs) /\ (Idle = 0 \/ t <= s.lu + Idle)
\* @type: Str => $sess;
See(sid) == IF Live(map[sid], now) THEN map[sid] ELSE None

Init == map = [s \in Sids |-> None] /\ now = 0 /\ last = [op |-> "init", sid |-> ""]

Did(name, s) == last' = [op |-> name, sid |-> s]
\* @type: (Int, Int) => $sess;
Fresh(a, t) == [ex |-> TRUE, auth |-> a, tok |-> t, created |-> now, lu |-> now]

SetTok(s, v)  == map' = [map EXCEPT ![s] = IF See(s).ex THEN [See(s) EXCEPT !.tok = v, !.lu = now] ELSE Fresh(0, v)] /\ Did("SetTok", s) /\ UNCHANGED now
SetAuth(s, a) == map' = [map EXCEPT ![s] = IF See(s).ex THEN [See(s) EXCEPT !.auth = a, !.lu = now] ELSE Fresh(a, 0)] /\ Did("SetAuth", s) /\ UNCHANGED now
GetTok(s)     == map' = [map EXCEPT ![s] = IF See(s).ex THEN [See(s) EXCEPT !.lu = now] ELSE None] /\ Did("GetTok", s) /\ UNCHANGED now
GetAuth(s)    == map' = [map EXCEPT ![s] = IF See(s).ex THEN [See(s) EXCEPT !.lu = now] ELSE None] /\ Did("GetAuth", s) /\ UNCHANGED now
ClearAuth(s)  == map' = [map EXCEPT ![s] = IF See(s).ex THEN [See(s) EXCEPT !.auth = 0, !.lu = now] ELSE None] /\ Did("ClearAuth", s) /\ UNCHANGED now
Remove(s)     == map' = [map EXCEPT ![s] = None] /\ Did("Remove", s) /\ UNCHANGED now
Tick          == \E d \in 1..1000000 : now' = now + d /\ Did("tick", "") /\ UNCHANGED map      \* time advances by any amount

Next == \/ \E s \in Sids : (\E v \in Toks : SetTok(s, v)) \/ (\E a \in Auths : SetAuth(s, a)) \/ GetTok(s) \/ GetAuth(s) \/ ClearAuth(s) \/ Remove(s)
        \/ Tick

---------------------------------------------------------------------------
\* the inductive invariant: well-formed entries, timestamps ordered, absent entries are None
IndInv ==
  /\ now >= 0
  /\ \A s \in Sids :
       /\ map[s].ex => (0 <= map[s].created /\ map[s].created <= map[s].lu /\ map[s].lu <= now
                        /\ map[s].auth \in Auths \cup {0} /\ map[s].tok \in Toks \cup {0})
       /\ ~map[s].ex => map[s] = None
\* any state of the right shape (Apalache's Gen: an arbitrary value of the variable's type) that satisfies IndInv
IndInit == map = Gen(3) /\ now = Gen(1) /\ last = Gen(1) /\ DOMAIN map = Sids /\ IndInv

\* one-step (action) properties, checked from any state satisfying IndInv
\* a session that a reader can see now is inside both limits, counted from a creation time no activity has moved
CreatedFixed == \A s \in Sids : (See(s).ex /\ map'[s].ex /\ last'.op # "Remove") => map'[s].created = See(s).created
NoInterference == \A s \in Sids : (last'.op # "tick" /\ last'.sid # s) => map'[s] = map[s]
RemoveErases == \A s \in Sids : (last'.op = "Remove" /\ last'.sid = s) => map'[s] = None
ClearKeepsTok == \A s \in Sids : (last'.op = "ClearAuth" /\ last'.sid = s /\ See(s).ex) => map'[s].tok = See(s).tok
\* activity extends only the idle limit: after any operation a visible session's absolute deadline is the one it had
AbsoluteNeverExtended == \A s \in Sids : (See(s).ex /\ map'[s].ex /\ last'.op \notin {"Remove", "tick"} /\ last'.sid = s) =>
                                            map'[s].created + Abs = See(s).created + Abs
\* once beyond a limit a session stays invisible until it is created anew (time only moves forward)
ExpiredStaysExpired == \A s \in Sids : (map[s].ex /\ ~Live(map[s], now) /\ last'.op = "tick") => ~Live(map'[s], now')
ActionProps == CreatedFixed /\ NoInterference /\ RemoveErases /\ ClearKeepsTok /\ AbsoluteNeverExtended /\ ExpiredStaysExpired
=============================================================================
