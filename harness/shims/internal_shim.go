//go:build verif

package internal

import (
	"context"
	"reflect"
	"strings"
	"sync"
	"unsafe"
)

// VerifAliveWatchers returns, for a TLS configuration pool, the number of file watchers that are registered and whose
// context has not been cancelled, per watched file id - or nil when the pool's private structure is not recognised (no
// private type, field or method is named at compile time, so a refactoring cannot stop the harness from building).
func VerifAliveWatchers(p TLSConfigPool) map[string]int {
	pool, ok := verifStruct(reflect.ValueOf(p))
	if !ok {
		return nil
	}
	for i := 0; i < pool.NumField(); i++ {
		w, ok := verifStruct(verifReadable(pool.Field(i)))
		if !ok {
			continue
		}
		// the watcher registry: a struct holding a map from string to something that carries a context
		for j := 0; j < w.NumField(); j++ {
			m := w.Field(j)
			if m.Kind() != reflect.Map || m.Type().Key().Kind() != reflect.String {
				continue
			}
			unlock := verifLock(w)
			out := map[string]int{}
			recognised := true
			iter := verifReadable(m).MapRange()
			for iter.Next() {
				ctx, ok := verifContextIn(iter.Value())
				if !ok {
					recognised = false
					break
				}
				if ctx.Err() == nil {
					out[iter.Key().String()]++
				}
			}
			unlock()
			if recognised {
				return out
			}
		}
	}
	_ = strings.ToLower
	return nil
}

func verifReadable(v reflect.Value) reflect.Value {
	if !v.IsValid() || !v.CanAddr() {
		return v
	}
	return reflect.NewAt(v.Type(), unsafe.Pointer(v.UnsafeAddr())).Elem()
}

func verifStruct(v reflect.Value) (reflect.Value, bool) {
	for v.IsValid() && (v.Kind() == reflect.Ptr || v.Kind() == reflect.Interface) {
		if v.IsNil() {
			return reflect.Value{}, false
		}
		v = v.Elem()
	}
	return v, v.IsValid() && v.Kind() == reflect.Struct
}

func verifLock(st reflect.Value) func() {
	for i := 0; i < st.NumField(); i++ {
		f := verifReadable(st.Field(i))
		if !f.CanAddr() {
			continue
		}
		switch m := f.Addr().Interface().(type) {
		case *sync.Mutex:
			m.Lock()
			return m.Unlock
		case *sync.RWMutex:
			m.RLock()
			return m.RUnlock
		}
	}
	return func() {}
}

func verifContextIn(v reflect.Value) (context.Context, bool) {
	st, ok := verifStruct(v)
	if !ok {
		return nil, false
	}
	ctxType := reflect.TypeOf((*context.Context)(nil)).Elem()
	for i := 0; i < st.NumField(); i++ {
		f := verifReadable(st.Field(i))
		if f.Type().Implements(ctxType) || f.Type() == ctxType {
			if f.Kind() == reflect.Interface && f.IsNil() {
				return nil, false
			}
			if !f.CanInterface() {
				return nil, false
			}
			if c, ok := f.Interface().(context.Context); ok {
				return c, true
			}
		}
	}
	return nil, false
}
