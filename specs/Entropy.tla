------------------------------ MODULE Entropy ------------------------------
(***************************************************************************)
(* C06: unpredictability of session ids, state and nonce, as an attacker-  *)
(* knowledge closure (Dolev-Yao style).  Every login discloses its state,  *)
(* nonce and code challenge (they travel through URLs and the provider)    *)
(* and the approximate time of the request; the session id is the secret.  *)
(* Which derivations the attacker can make depends on the class of the     *)
(* generator:                                                              *)
(*   Csprng           -- values are independent draws from an entropy      *)
(*                       source: no derivation applies;                    *)
(*   TimeSeededPrng   -- all values of a login are a function of a seed    *)
(*                       taken from the clock: the seed is found by search *)
(*                       over the time window and checked against the      *)
(*                       disclosed values, then the session id follows;    *)
(*   SharedStream     -- logins draw from one deterministic stream: the    *)
(*                       values of the next login follow from the last;    *)
(*   Correlated       -- one value is computed from another of the same or *)
(*                       of another login (reuse, truncation, copy).       *)
(*   FallbackPrng     -- values come from the entropy source while it      *)
(*                       answers promptly; when it is slow or fails (early boot,    *)
(*                       starvation) the generator falls back to a         *)
(*                       clock-seeded one: TimeSeededPrng while degraded;  *)
(*   FixedKeyStream   -- values come from a deterministic stream whose key *)
(*                       is the same in every process: the values of the   *)
(*                       i-th login repeat after every restart.            *)
(* TLC shows that the invariant Secrecy holds exactly for Csprng.  Each    *)
(* derivation action has an executable witness that the harness runs       *)
(* against the real generator and the real handler; a witness that         *)
(* succeeds is logged as an attackerDerives event, which EntropyTrace.tla  *)
(* rejects.                                                                *)
(***************************************************************************)
EXTENDS Integers, FiniteSets, TLC

CONSTANTS GenClass, MaxLogins

Logins == 1..MaxLogins
Val(kind, i) == <<kind, i>>                      \* the value of a kind issued at login i
Public(i) == {Val("state", i), Val("nonce", i), Val("challenge", i), Val("time", i)}

VARIABLES issued, known, seedKnown,
          slow,       \* logins issued while the entropy source was slow to answer or failing
          observed    \* the attacker has watched an earlier run of the service (its public and its own sessions' values)
vars == <<issued, known, seedKnown, slow, observed>>

Init == issued = {} /\ known = {} /\ seedKnown = {} /\ slow = {} /\ observed = FALSE

Login(i) == /\ i \notin issued /\ (i = 1 \/ (i - 1) \in issued) /\ issued' = issued \cup {i} /\ known' = known \cup Public(i)
            /\ \E d \in BOOLEAN : slow' = IF d THEN slow \cup {i} ELSE slow          \* the environment decides whether the source is slow
            /\ UNCHANGED <<seedKnown, observed>>

\* the attacker runs the service himself (or watched it before a restart) and notes the values of the i-th login of a run
ObserveEarlierRun == ~observed /\ observed' = TRUE /\ UNCHANGED <<issued, known, seedKnown, slow>>

\* search the seeds in the disclosed time window; a candidate is confirmed by reproducing the disclosed state and nonce
DeriveFromTimeSeed(i) ==
  /\ GenClass = "TimeSeededPrng" /\ i \in issued
  /\ {Val("time", i), Val("state", i), Val("nonce", i)} \subseteq known
  /\ seedKnown' = seedKnown \cup {i} /\ known' = known \cup {Val("sid", i)} /\ UNCHANGED <<issued, slow, observed>>

\* the same search, possible only for logins issued while the entropy source was slow or failing (a generator that
\* hands out values although its source gives it nothing took them from somewhere an attacker can look too)
DeriveWhenSourceSlow(i) ==
  /\ GenClass = "FallbackPrng" /\ i \in issued /\ i \in slow
  /\ {Val("time", i), Val("state", i), Val("nonce", i)} \subseteq known
  /\ seedKnown' = seedKnown \cup {i} /\ known' = known \cup {Val("sid", i)} /\ UNCHANGED <<issued, slow, observed>>

\* the i-th login of every run draws the same values
DeriveFromEarlierRun(i) ==
  /\ GenClass = "FixedKeyStream" /\ i \in issued /\ observed
  /\ known' = known \cup {Val("sid", i)} /\ UNCHANGED <<issued, seedKnown, slow, observed>>

\* one deterministic stream: what login i drew determines what login i+1 draws
DeriveFromSibling(i) ==
  /\ GenClass = "SharedStream" /\ i \in issued /\ (i + 1) \in issued
  /\ Val("state", i) \in known
  /\ known' = known \cup {Val("sid", i + 1), Val("sid", i)} /\ UNCHANGED <<issued, seedKnown, slow, observed>>

\* a secret value that is a function of disclosed values (of this or of an earlier login)
DeriveFromPublic(i) ==
  /\ GenClass = "Correlated" /\ i \in issued /\ Val("state", i) \in known
  /\ known' = known \cup {Val("sid", i)} /\ UNCHANGED <<issued, seedKnown, slow, observed>>

Next == \/ \E i \in Logins : Login(i) \/ DeriveFromTimeSeed(i) \/ DeriveFromSibling(i) \/ DeriveFromPublic(i)
                             \/ DeriveWhenSourceSlow(i) \/ DeriveFromEarlierRun(i)
        \/ ObserveEarlierRun
Spec == Init /\ [][Next]_vars

\* no session id ever enters the attacker's knowledge
Secrecy == \A i \in Logins : Val("sid", i) \notin known
=============================================================================
