package zzverif

// Secret-propagation driver (C19): event histories from SecretSync.tla are applied to controller-runtime's fake
// client and fed to the real SecretController.Reconcile; after every event the secret held by every filter is logged.

import (
	"bufio"
	"context"
	"encoding/json"
	"errors"
	"fmt"
	"os"
	"strings"

	"google.golang.org/protobuf/encoding/protojson"
	corev1 "k8s.io/api/core/v1"
	apierrors "k8s.io/apimachinery/pkg/api/errors"
	metav1 "k8s.io/apimachinery/pkg/apis/meta/v1"
	"k8s.io/apimachinery/pkg/types"
	ctrl "sigs.k8s.io/controller-runtime"
	"sigs.k8s.io/controller-runtime/pkg/client"
	"sigs.k8s.io/controller-runtime/pkg/client/fake"
	"sigs.k8s.io/controller-runtime/pkg/client/interceptor"

	configv1 "github.com/istio-ecosystem/authservice/config/gen/go/v1"
	"github.com/istio-ecosystem/authservice/internal/k8s"
)

type secEvent struct {
	Op   string `json:"op"`
	Name string `json:"name"`
	V    string `json:"v"`
}
type secScenario struct {
	ID         string     `json:"id"`
	Refs       []string   `json:"refs"`
	RefNs      []string   `json:"refNs"` // per filter: namespace written in the reference ("" = none)
	Events     []secEvent `json:"events"`
	CrossNs    bool       `json:"crossNs"`
	SameClient bool       `json:"sameClient"`
	FaultyGets bool       `json:"faultyGets"` // the first read of every reconcile fails (a transient API-server error); a reconcile that errs is retried, as the work queue does // every filter uses the same OAuth client id (one client registered for several chains)
}

const ownNs, otherNs, holdFinalizer = "own", "other", "verif.example/hold"

func runSecretScenario(rec *recorder, sc *secScenario) error {
	ctx := context.Background()
	chains := []any{}
	for i, r := range sc.Refs {
		var o map[string]any
		_ = json.Unmarshal([]byte(staticOIDC), &o)
		delete(o, "client_secret")
		o["client_id"] = fmt.Sprintf("client-%d", i+1)
		if sc.SameClient {
			o["client_id"] = "shared-client"
			o["callback_uri"] = fmt.Sprintf("https://app.test/cb%d", i+1)
		}
		if r == "lit" {
			o["client_secret"] = "literal-secret"
		} else {
			ref := map[string]any{"name": r}
			if i < len(sc.RefNs) && sc.RefNs[i] != "" {
				ref["namespace"] = sc.RefNs[i]
			}
			o["client_secret_ref"] = ref
		}
		chains = append(chains, map[string]any{"name": fmt.Sprintf("chain%d", i+1), "filters": []any{map[string]any{"oidc": o}}})
	}
	b, _ := json.Marshal(map[string]any{"chains": chains})
	cfg := &configv1.Config{}
	if err := protojson.Unmarshal(b, cfg); err != nil {
		return err
	}
	failNext := false
	cl := fake.NewClientBuilder().WithInterceptorFuncs(interceptor.Funcs{
		Get: func(ctx context.Context, c client.WithWatch, key client.ObjectKey, obj client.Object, opts ...client.GetOption) error {
			if failNext {
				failNext = false
				return apierrors.NewInternalError(errors.New("verif: injected API server fault"))
			}
			return c.Get(ctx, key, obj, opts...)
		}}).Build()
	c, startErr := k8s.VerifNewController(cfg, ownNs, cl)
	rec.emit(map[string]any{"ev": "kreset", "scenario": sc.ID, "refs": strs(sc.Refs), "startupError": startErr != nil, "expectStartupError": sc.CrossNs})
	if startErr != nil {
		return nil
	}
	held := func() []any {
		out := []any{}
		for _, ch := range cfg.GetChains() {
			s := ch.GetFilters()[0].GetOidc().GetClientSecret()
			switch s {
			case "":
				out = append(out, "unset")
			case "literal-secret":
				out = append(out, "literal")
			default:
				out = append(out, s)
			}
		}
		return out
	}
	get := func(ns, name string) (*corev1.Secret, bool) {
		s := &corev1.Secret{}
		if err := cl.Get(ctx, types.NamespacedName{Namespace: ns, Name: name}, s); err != nil {
			return nil, false
		}
		return s, true
	}
	upsert := func(ns, name string, data map[string][]byte) error {
		if s, ok := get(ns, name); ok {
			s.Data = data
			return cl.Update(ctx, s)
		}
		return cl.Create(ctx, &corev1.Secret{ObjectMeta: metav1.ObjectMeta{Namespace: ns, Name: name, Finalizers: []string{holdFinalizer}}, Data: data})
	}
	for _, e := range sc.Events {
		var err error
		switch e.Op {
		case "set", "setWhileDeleting":
			err = upsert(ownNs, e.Name, map[string][]byte{"client-secret": []byte(e.V)})
		case "setOtherNs":
			err = upsert(otherNs, e.Name, map[string][]byte{"client-secret": []byte(e.V)})
		case "dropKey":
			err = upsert(ownNs, e.Name, map[string][]byte{"unrelated": []byte("x")})
		case "emptyKey":
			err = upsert(ownNs, e.Name, map[string][]byte{"client-secret": {}})
		case "markDeleting":
			if s, ok := get(ownNs, e.Name); ok {
				err = cl.Delete(ctx, s)
			}
		case "delete":
			if s, ok := get(ownNs, e.Name); ok {
				s.Finalizers = nil
				if err = cl.Update(ctx, s); err == nil {
					if s2, ok := get(ownNs, e.Name); ok {
						err = client.IgnoreNotFound(cl.Delete(ctx, s2))
					}
				}
			}
		case "reconcile":
			req := ctrl.Request{NamespacedName: types.NamespacedName{Namespace: ownNs, Name: e.Name}}
			failNext = sc.FaultyGets
			_, err = c.Reconcile(ctx, req)
			failNext = false
			for retry := 0; err != nil && sc.FaultyGets && retry < 3; retry++ {
				_, err = c.Reconcile(ctx, req) // the work queue requeues a reconcile that returned an error
			}
		case "reconcileOtherNs":
			_, err = c.Reconcile(ctx, ctrl.Request{NamespacedName: types.NamespacedName{Namespace: otherNs, Name: e.Name}})
		default:
			return fmt.Errorf("unknown secret event %q", e.Op)
		}
		if err != nil && !strings.HasPrefix(e.Op, "reconcile") {
			return fmt.Errorf("%s: applying %s to the fake client: %w", sc.ID, e.Op, err)
		}
		_, exists := get(ownNs, e.Name)
		rec.emit(map[string]any{"ev": "kev", "op": e.Op, "name": e.Name, "v": e.V, "held": held(), "reconcileError": err != nil, "exists": exists})
	}
	return nil
}

func runSecretFile(in, out string) (int, error) {
	f, err := os.Open(in)
	if err != nil {
		return 0, err
	}
	defer f.Close()
	rec, err := newRecorder(out)
	if err != nil {
		return 0, err
	}
	defer rec.close()
	sc := bufio.NewScanner(f)
	sc.Buffer(make([]byte, 1<<20), 1<<26)
	n := 0
	for sc.Scan() {
		line := strings.TrimSpace(sc.Text())
		if line == "" {
			continue
		}
		var s secScenario
		if err := json.Unmarshal([]byte(line), &s); err != nil {
			return n, err
		}
		if err := runSecretScenario(rec, &s); err != nil {
			return n, err
		}
		n++
	}
	return n, sc.Err()
}
