#!/usr/bin/env python3
"""Regenerates /verif/MANIFEST.json from the table below (kept in one place so that it stays valid)."""
import json, os, subprocess

VERIF = os.path.dirname(os.path.dirname(os.path.abspath(__file__)))

SYS_NOTE = ("Trusted base: TLC; the Go harness (IdP simulator that renders and knows the ground truth of every token, spy stores with gates, "
            "recorder that renames random strings to symbols and parses Location/Set-Cookie independently); miniredis in place of Redis; "
            "the verif clock hook. Exhaustive only within the stated bounds; beyond them seeded random histories.")

CHECKS = {
 "C01": ("model_checking", "6 C01",
         "AuthFlow.tla (handler ladder at store-call granularity, attacker-chosen requests, fault budget) is model-checked exhaustively for OkJustified/FaultNeverOk; every "
         "single (thorough: pair of) fault position on every path is exported by TLC and replayed through the real ExtAuthZFilter.Check on both stores (incl. single Redis-command faults), "
         "and every recorded trace is validated by TLC against AuthMonitor.tla whose C01 monitors judge each OK verdict from the check's own store reads, IdP exchanges and faults "
         "(a Redis command that failed counts as a store failure whether or not the store reported it; two instances of the service over one Redis are included; a sample of the scenarios also travels over a real gRPC connection through server.Server and its interceptors, "
         "and under request envelopes - other methods, XHR, proxy headers, plain http - with the verdict classified by its status code alone, as the proxy does).",
         "TLC exhaustive model checking of AuthFlow + TLC-exported fault/attacker scenarios replayed into real Check + TLC trace validation (AuthMonitor)"),
 "C02": ("model_checking", "6 C02",
         "The adversarial token grammar (21 classes, one grafted on a token the service accepted earlier, x login/refresh x configs, over static, fetched and discovered key sets with the key provider object handed to the filter as cmd/main.go does, several rendered variants per class) is enumerated by TLC (Families.tla); the simulated IdP renders each class, "
         "knows its ground truth, and TLC validates on the recorded trace that every stored token came from the exchange of that check and is valid under ground truth, and that the upstream headers equal the bound tokens. "
         "A forged refresh answer racing with a second check on the same session is explored at gate granularity. Fetched key sets: KeySource.tla (per-URI cache, background refresh) is model-checked, its behaviours are replayed in real time into the real JWKS provider and "
         "KeySourceTrace.tla explains every lookup by placing the unlogged refresh steps (a lookup returns only key sets its own URI served, never an older generation, the current one after the interval).",
         "TLC-enumerated token grammar replayed into real Check + TLC trace validation (AuthMonitor BoundOnlyIfValid/ForwardedEqBound)"),
 "C03": ("model_checking", "6 C03",
         "TLC enumerates compliant IdP answer shapes x configurations x requested URLs (Families!C03Space); a simulated browser follows the redirects through the real Check; TLC validates OnePass/NoRelogin on the trace.",
         "TLC-enumerated compliant-login product + redirect-following browser against real Check + TLC trace validation"),
 "C04": ("model_checking", "6 C04",
         "AuthFlow is model-checked for ExchangeBound/TokensFromOwnLogin with attacker-chosen cookie/state/code; callback query shapes x replays (Families!C04Space), every fault position of a callback followed by its replay, and TLC -simulate attacker walks are replayed; "
         "the strict simulated token endpoint logs exactly what it was sent and TLC judges every exchange against the ghost login taken from the authorize redirect of the presented session.",
         "TLC model checking of AuthFlow + TLC-generated attacker/callback scenarios + TLC trace validation of every token-endpoint request"),
 "C05": ("model_checking", "6 C05",
         "Presented-id classes x kinds x cookie prefixes (TLC-enumerated) and attacker walks replayed; TLC validates on the trace that every authorize answer issues a never-seen id after destroying the presented one, "
         "that tokens are only stored under issued ids, and the parsed cookie's name/attributes.",
         "TLC-enumerated histories replayed into real Check + TLC trace validation (FreshIdOnRedirect, TokensOnlyUnderIssued, CookieShape)"),
 "C07": ("model_checking", "6 C07",
         "The trigger function is transcribed to TLA+ (DispatchOps); TLC enumerates every rule set in the bound, proves the query/fragment invariance on the specification, the real Check is run on every rule set x target, and TLC compares every verdict with the TLA+ definition.",
         "TLA+ transcription of the trigger function; TLC bounded-exhaustive enumeration; verdict vectors of the real Check judged by TLC"),
 "C08": ("model_checking", "6 C08",
         "Chain evaluation is defined in TLA+ (DispatchOps!Judge); TLC enumerates chain lists x flag; the real Check runs each on 8 header maps; TLC compares outcome and whether an OIDC filter was reached.",
         "TLA+ reference evaluator; TLC bounded-exhaustive enumeration; real Check judged by TLC"),
 "C09": ("model_checking", "6 C09",
         "TLC model-checks AuthFlow: with the code's design choice (writes create absent sessions) LoggedOutStaysDead is violated, with conditional writes it holds. Every interleaving of a logout with one (thorough: two) concurrent checks, at store/IdP/key-lookup gates, "
         "is exported and replayed with gates on both stores, plus faulty logouts (incl. single Redis-command faults); TLC validates LogoutFinal/LoggedOutStaysDead on the traces. The reproduced race is a known finding. At store level the in-memory store's own clean-up runs concurrently with removals and reads; RemovedTrace.tla judges that what was removed with no write in flight stays removed.",
         "TLC exhaustive interleaving enumeration (AuthFlowScn) replayed with gates into real Check + TLC trace validation"),
 "C10": ("model_checking", "6 C10",
         "SessionMap.tla is model-checked (NeverHonouredLate, CreatedFixed); one operation sequence per transition of its state graph is run against the real memory and Redis stores under a virtual clock for several (absolute, idle) pairs and validated by StoreTrace.tla; "
         "at system level the real factory wiring and Check are driven through timeouts with the clock hook.",
         "TLC state-graph-covering test generation from SessionMap + TLC trace validation (StoreTrace) + system-level traces (AuthMonitor)"),
 "C11": ("model_checking", "6 C11",
         "Refresh histories x provider policies (TLC-enumerated) over several token lifetimes are replayed; TLC validates that the refresh token sent is the stored, newest one, that the stored result is the merge, that later checks see it, and that failures end the session.",
         "TLC-enumerated refresh histories replayed into real Check + TLC trace validation (RefreshUsesLatest, RefreshMerge)"),
 "C12": ("model_checking", "6 C12",
         "Both stores are validated operation by operation (result and projected real state) against SessionMap via StoreTrace.tla on TLC-generated transition-covering sequences and random long histories routed over two Redis-backed instances, with single failing Redis commands; "
         "concurrent memory-store histories - also over sessions that have timed out and with the store's clean-up running, then in a race-detector build of the harness whose reports inside a store operation count as a non-atomic operation - are searched for a linearization (LinTrace.tla); the memory store's mutex and critical sections are model-checked for serializability of every interleaving of every three operations (MemStore.tla) and that model's whole operation family (648 histories) is run concurrently on the real store and judged by LinTrace.tla; pairs of Redis operations at command granularity (RedisStore.tla); the reference's invariant is shown inductive by Apalache (SessionMapInd.tla, thorough tier).",
         "TLC state-graph-covering test generation from SessionMap + strict TLC trace validation of store operations"),
 "C13": ("model_checking", "6 C13",
         "Configurations with reserved/non-ASCII characters x URLs (TLC-enumerated); Location values are parsed with net/url, mapped to symbols, and TLC judges endpoint, own query, exact parameter map, S256 of the stored verifier, the restored URL and no-cache headers.",
         "TLC-enumerated configurations replayed + independent URL parsing + TLC trace validation (Redirects)"),
 "C14": ("model_checking", "6 C14",
         "Every answer of the token-grammar, refresh, shapes and fault families (incl. transport failures) is scanned for unique secret markers in raw/percent/base64/hex form; TLC judges NoLeak and that OK adds nothing but the token headers.",
         "marker scan of every serialised answer over TLC-generated histories and fault positions + TLC trace validation (NoLeak)"),
 "C15": ("exploration", "6 C15",
         "Shapes grammar (request shapes, token-endpoint body classes, claim-type classes) enumerated by TLC and replayed; a panic is recovered by the harness and is an event no action of the trace specification accepts as well-formed.",
         "TLC-enumerated shape grammar replayed into real Check; panics and ill-formed verdicts flagged by TLC trace validation"),
 "C06": ("other", "6 C06",
         "Entropy.tla is an attacker-knowledge closure over generator classes; TLC shows Secrecy holds exactly for the CSPRNG class. Every derivation action has an executable witness run against the real generator "
         "built as Check builds it (time-window seed search for math/rand, correlation / repetition / shape tests over thousands of logins, duplicate ids among concurrently built generators, 6400 logins answered in parallel by one server, "
         "a slow entropy source with known content, two fresh processes), and AuthMonitor judges on system traces that no login "
         "redirect reuses the state, nonce, PKCE challenge or session id of another login. It decides the modelled generator classes only; the static call-graph clause is not claimed.",
         "TLC-checked attacker-knowledge model (Entropy.tla) bound to executable attack witnesses + TLC trace validation of value freshness"),
 "C17": ("model_checking", "6 C17",
         "ConfigOps.tla states MustReject / the member-wise merge / Resolved over an abstract document; TLC enumerates all documents with up to two deviating field classes (plain, default+override, two overrides, structural cases) and renders each to JSON; "
         "the real LocalConfigFile.Validate loads every one and TLC judges accepted => not MustReject, merged values as expected, fully resolved, never a panic; mutated shipped fixtures are judged for 'never panics'.",
         "TLC-enumerated document grammar rendered to JSON, real loader, result judged by TLC (ConfigTrace)"),
 "C18": ("model_checking", "6 C18",
         "AuthFlow with two filters is model-checked for HonouredOnlyByCreator (violated when the store is keyed by id alone, as coded); two-filter configurations x store topologies x cookie renaming x timeouts (TLC-enumerated, incl. override-based configs and Redis DB split) are replayed; "
         "TLC validates creator, own credentials/endpoints/settings and own timeouts. Shared-store findings are known findings.",
         "TLC model checking with the design choice as constant + TLC-enumerated two-filter histories + TLC trace validation"),
 "C19": ("model_checking", "6 C19",
         "SecretSync.tla models Secrets of the controller's and of another namespace, deletion held by a finalizer, missing/empty keys and the filter->reference map; TLC checks OnlyReferencing and prints one event history per transition of the state graph, random walks, and every history of one Secret up to a length; "
         "each is applied to controller-runtime's fake client and the real Reconcile, and TLC validates the secret held by every filter after every event; start-up refusal of cross-namespace references is checked; at the token endpoint the assembled filter with the real controller is driven through rotations between and during checks.",
         "TLC state-graph-covering histories + random walks replayed into real Reconcile + TLC trace validation (SecretTrace)"),
 "C20": ("model_checking", "6 C20",
         "TLSTrust.tla models the pooled TLS configurations, the CA file and its watchers; TLC shows Rotation fails with one watcher per file (the repaired defect) and holds with one per configuration; transition-covering histories and random walks are replayed "
         "against the real pool with real TLS handshakes (through NewHTTPClient) to servers certified by the old and the new CA; TLC judges trust, skip-verify precedence, sharing and watcher count with a set-valued oracle that tolerates refresh timing.",
         "TLC model checking of TLSTrust + histories replayed with real TLS handshakes + TLC trace validation (TLSTrace)"),
}

NOT_APPLICABLE = {
 "C16": "data races are a property of unsynchronised memory accesses under the Go memory model; a TLA+ model plus trace validation sees only what hooks log, and an unsynchronised access is precisely one no hook logs (DESIGN.md section 9)",
}
PENDING = {}


def main():
    props = [json.loads(l)["id"] for l in open(os.path.join(VERIF, "properties.jsonl"))]
    checks = []
    for pid in props:
        if pid not in CHECKS:
            continue
        level, ref, text, tech = CHECKS[pid]
        checks.append({
            "property_id": pid,
            "quick_cmd": "bin/check %s --tier quick" % pid,
            "thorough_cmd": "bin/check %s --tier thorough" % pid,
            "evidence_file": "/verif/evidence/%s.json" % pid,
            "replay_cmd_template": "bin/check %s --replay {path}" % pid,
            "engine": "tlc+go-harness",
            "level_claimed": {"category": level, "text": text, "design_ref": "DESIGN.md section " + ref},
            "level_note": SYS_NOTE,
            "technique": tech,
        })
    na = [{"property_id": k, "reason": v} for k, v in NOT_APPLICABLE.items()]
    for pid in props:
        if pid not in CHECKS and pid not in NOT_APPLICABLE:
            na.append({"property_id": pid, "reason": PENDING.get(pid, "check not built yet in this round (see DESIGN.md section 11); not claimed")})
    commits = subprocess.run(["git", "-C", "/repo", "log", "--format=%h %s"], capture_output=True, text=True).stdout.splitlines()
    hooks = [c.split()[0] for c in commits if "verif hook" in c]
    m = {
        "version": 1,
        "setup_cmd": "bin/check setup",
        "hooks": {
            "guard": "verif",
            "enable": "bin/check builds /repo's working tree with `go test -c -tags verif -overlay <generated overlay.json> -vet=off ./internal/zz_verif/` (the overlay injects /verif/harness into the module; nothing is written to /repo)",
            "baseline_off_cmd": "cd /repo && GOFLAGS=-mod=mod GOPROXY=off go test -json -vet=off -count=1 -timeout 25m ./...",
            "source_commits": hooks,
            "add_only": True,
        },
        "engines": [
            {"name": "tlc-exhaustive", "path": "specs/AuthFlow.tla specs/AuthFlowScn.tla specs/Families.tla specs/SessionMap.tla specs/DispatchGen.tla specs/ConfigGen.tla specs/SecretSync.tla specs/TLSTrust.tla specs/Entropy.tla", "serves_properties": sorted(CHECKS), "kind_free_text": "TLC model checking of the design specifications; enumerates scenarios / grammars / state-graph transitions"},
            {"name": "go-harness", "path": "harness/", "serves_properties": sorted(CHECKS), "kind_free_text": "drivers compiled into /repo's module by build overlay at every invocation: system driver (real ExtAuthZFilter.Check, IdP simulator, gated spy stores), store driver, dispatch driver"},
            {"name": "tlc-trace", "path": "specs/AuthMonitor.tla specs/StoreTrace.tla specs/DispatchTrace.tla specs/ConfigTrace.tla specs/SecretTrace.tla specs/TLSTrace.tla specs/EntropyTrace.tla", "serves_properties": sorted(CHECKS), "kind_free_text": "TLC validation of traces recorded from the real code; property monitors evaluated in every state"},
        ],
        "checks": checks,
        "not_applicable": na,
        "notes": "Known findings and fixed defects are listed in known_findings.json; seeded defects used to validate the checks are under seeded/.",
    }
    with open(os.path.join(VERIF, "MANIFEST.json"), "w") as fh:
        json.dump(m, fh, indent=1)
    print("MANIFEST.json: %d checks, %d not applicable/unclaimed" % (len(checks), len(na)))


if __name__ == "__main__":
    main()
