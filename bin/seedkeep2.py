#!/usr/bin/env python3
"""Second-round seeded defects: scans /tmp/wt2-<prop>/out, verifies and files them under seeded/<prop>-r2m<n>/ (see seedkeep.py)."""
import glob, json, os, re, shutil, subprocess, sys, concurrent.futures
sys.path.insert(0, os.path.dirname(os.path.abspath(__file__)))
import seedkeep

def items(props):
    out = []
    for p in props:
        for diff in sorted(glob.glob("/tmp/wt2-%s/out/mutant*.diff" % p)):
            n = re.search(r"mutant(\d+)\.diff", diff).group(1)
            demo = None
            for cand in ("demo%s_test.go" % n, "demo%s_test.go.txt" % n):
                if os.path.exists("/tmp/wt2-%s/out/%s" % (p, cand)):
                    demo = "/tmp/wt2-%s/out/%s" % (p, cand)
            if demo is None:
                continue
            out.append(("%s-r2m%s" % (p, n), p, diff, demo, "see notes.md (second round)"))
    return out

def one(seed):
    sid, prop, patch, demo, needs = seed
    r = seedkeep.one(seed)
    d = os.path.join("/verif/seeded", sid)
    notes = "/tmp/wt2-%s/out/NOTES.md" % prop
    if os.path.exists(notes):
        shutil.copy(notes, os.path.join(d, "notes.md"))
    return r

if __name__ == "__main__":
    props = sys.argv[1:]
    with concurrent.futures.ThreadPoolExecutor(max_workers=3) as ex:
        for sid, ver, rc in ex.map(one, items(props)):
            print("%s verified=%s check_exit=%s" % (sid, ver, rc), flush=True)
