----------------------------- MODULE StoreTrace -----------------------------
(***************************************************************************)
(* Trace validation of the real session stores against the abstract        *)
(* session map (C12) with its limits (C10).                                *)
(*                                                                         *)
(* The abstract state is advanced by the reference semantics of            *)
(* SessionMap.tla; every logged result and every logged projection of the  *)
(* real state (probe) must be one the reference allows.  The three named   *)
(* deviations of DESIGN.md 4.1 are allowed explicitly:                     *)
(*   ClearAbsentFails       -- clearing an absent session may report an    *)
(*                             error (Redis) or succeed (memory);          *)
(*   ReadNothingMayNotTouch -- a read that finds nothing in a live session *)
(*                             may or may not count as a use (`lus` is the *)
(*                             set of possible last-use times);            *)
(* (A probe that does not recognise the store's private structure says     *)
(* known = FALSE / membersKnown = FALSE / createdKnown = FALSE: the rules   *)
(* that look at the projected state are then skipped, results still judged.)*)
(*   BoundaryEither         -- within one second of a limit a session may  *)
(*                             be present or gone.                         *)
(* After the first mismatch of a scenario the rest of it is skipped (the   *)
(* abstract state is no longer meaningful) and the mismatch is recorded.   *)
(***************************************************************************)
EXTENDS Integers, Sequences, FiniteSets, TLC, Json

CONSTANTS TraceFile, OutFile
Trace == ndJsonDeserialize(TraceFile)

VARIABLES l, now, cfg, m, skip, viol, fired
vars == <<l, now, cfg, m, skip, viol, fired>>

None == [ex |-> FALSE, auth |-> 0, tok |-> 0, created |-> 0, lus |-> {}]
Put(f, k, v) == [x \in (DOMAIN f) \cup {k} |-> IF x = k THEN v ELSE f[x]]
Get(sid) == IF sid \in DOMAIN m THEN m[sid] ELSE None
Bump(f, k) == IF k \in DOMAIN f THEN [f EXCEPT ![k] = @ + 1] ELSE Put(f, k, 1)

E == Trace[l]

Gone(A, t) == ~A.ex \/ (cfg.abs > 0 /\ t > A.created + cfg.abs) \/ (cfg.idle > 0 /\ \A u \in A.lus : t > u + cfg.idle)
Kept(A, t) == A.ex /\ (cfg.abs = 0 \/ t + 1 < A.created + cfg.abs) /\ (cfg.idle = 0 \/ \A u \in A.lus : t + 1 < u + cfg.idle)
Expired(A, t) == A.ex /\ Gone(A, t)

V(p, cause) == [p |-> p, cause |-> cause, sc |-> cfg.scenario, at |-> l, op |-> E.op, store |-> cfg.store]

\* the reference's verdict on one logged operation: <<violations, next abstract state of the touched id>>
Judge ==
  LET A == Get(E.sid)
      t == now
      gone == Gone(A, t)
      kept == Kept(A, t)
      P == E.probe
      fresh(auth, tok) == [ex |-> TRUE, auth |-> auth, tok |-> tok, created |-> t, lus |-> {t}]
      \* does the probe say the write created the session anew?
      anew == gone \/ (~kept /\ P.ex /\ P.createdKnown /\ P.created = t /\ A.created # t)
  IN
  CASE E.op \in {"GetTok", "GetAuth"} ->
        LET have == IF E.op = "GetTok" THEN A.tok ELSE A.auth
            r == E.res
        IN IF E.err THEN <<{V("C12", "read-reports-error")}, A>>
           ELSE IF r < 0 THEN <<{V("C12", "read-returns-torn-or-unknown-value")}, A>>
           ELSE IF r # 0 /\ gone THEN <<{IF Expired(A, t) THEN V("C10", "honoured-after-timeout") ELSE V("C12", "read-returns-absent-session")}, A>>
           ELSE IF r # 0 /\ r # have THEN <<{V("C12", "read-does-not-return-latest-write")}, A>>
           ELSE IF r = 0 /\ kept /\ have # 0 THEN <<{V("C12", "live-session-not-returned"), V("C10", "dropped-inside-both-limits")}, A>>
           ELSE IF r # 0 THEN <<{}, [A EXCEPT !.lus = {t}]>>
           ELSE IF gone THEN <<{}, None>>
           ELSE IF kept THEN <<{}, [A EXCEPT !.lus = @ \cup {t}]>>          \* ReadNothingMayNotTouch
           ELSE <<{}, IF have # 0 THEN None ELSE [A EXCEPT !.lus = @ \cup {t}]>>   \* BoundaryEither, resolved by the result
    [] E.op \in {"SetTok", "SetAuth"} ->
        LET B == IF anew THEN (IF E.op = "SetTok" THEN fresh(0, E.v) ELSE fresh(E.v, 0))
                 ELSE (IF E.op = "SetTok" THEN [A EXCEPT !.tok = E.v, !.lus = {t}] ELSE [A EXCEPT !.auth = E.v, !.lus = {t}])
        IN IF E.err THEN <<{V("C12", "write-reports-error")}, A>>
           ELSE IF P.known /\ ~P.ex THEN <<{V("C12", "write-not-visible")}, B>>
           ELSE IF P.createdKnown /\ P.created # B.created THEN <<{V("C12", "creation-time-moved"), V("C10", "creation-time-moved")}, B>>
           ELSE IF P.known /\ P.membersKnown /\ (P.tok # (B.tok # 0) \/ P.auth # (B.auth # 0)) THEN <<{V("C12", "write-disturbs-other-member")}, B>>
           ELSE <<{}, B>>
    [] E.op = "ClearAuth" ->
        IF gone THEN <<(IF P.known /\ P.ex /\ ~Expired(A, t) THEN {V("C12", "clear-creates-session")} ELSE {}), None>>     \* ClearAbsentFails: either result
        ELSE IF E.err /\ kept THEN <<{V("C12", "clear-reports-error-on-live-session")}, A>>
        ELSE IF E.err THEN <<{}, None>>
        ELSE IF P.known /\ P.membersKnown /\ P.ex /\ (P.auth \/ P.tok # (A.tok # 0)) THEN <<{V("C12", "clear-does-not-clear-or-damages-tokens")}, A>>
        ELSE IF P.known /\ ~P.ex /\ kept THEN <<{V("C12", "clear-removes-session")}, A>>
        ELSE <<{}, IF P.ex \/ ~P.known THEN [A EXCEPT !.auth = 0, !.lus = {t}] ELSE None>>
    [] E.op = "Remove" ->
        IF E.err THEN <<{V("C12", "remove-reports-error")}, A>>
        ELSE IF P.known /\ P.ex THEN <<{V("C12", "remove-leaves-data")}, None>>
        ELSE <<{}, None>>
    [] OTHER -> <<{}, A>>

\* ids do not interfere: the probe of the touched id is all the driver logs, so interference shows up as a later
\* read / write mismatch on the other id (every scenario of the generator reads back).

Init == l = 1 /\ now = 0 /\ cfg = [scenario |-> "none", store |-> "none", abs |-> 0, idle |-> 0] /\ m = <<>> /\ skip = FALSE /\ viol = {} /\ fired = <<>>

Next ==
  /\ l <= Len(Trace) /\ l' = l + 1
  /\ CASE E.ev = "sreset" -> /\ cfg' = [scenario |-> E.scenario, store |-> E.store, abs |-> E.abs, idle |-> E.idle]
                             /\ now' = 0 /\ m' = <<>> /\ skip' = FALSE /\ fired' = Bump(fired, "scenarios") /\ UNCHANGED viol
       [] E.ev = "stick" -> now' = E.now /\ UNCHANGED <<cfg, m, skip, viol, fired>>
       [] E.ev = "sop" ->
            IF skip THEN UNCHANGED <<now, cfg, m, skip, viol, fired>>
            ELSE IF E.mutated = 1
            THEN \* what an earlier read returned changed when the store was written afterwards: a read result is a value
                 /\ viol' = viol \cup {V("C12", "earlier-read-result-changed-by-a-later-operation")} /\ skip' = TRUE
                 /\ UNCHANGED <<now, cfg, m, fired>>
            ELSE IF E.faultHit /\ E.err
            THEN \* a Redis command of the operation failed and the store said so: what is stored under the id is not known any more
                 /\ skip' = TRUE /\ fired' = Bump(fired, "reportedCommandFault") /\ UNCHANGED <<now, cfg, m, viol>>
            ELSE LET j == Judge IN
                 /\ viol' = viol \cup j[1]
                 /\ skip' = (j[1] # {})
                 /\ m' = Put(m, E.sid, j[2])
                 /\ fired' = Bump(Bump(fired, E.op), IF Expired(Get(E.sid), now) THEN "opOnExpiredSession" ELSE "opOnLiveOrAbsent")
                 /\ UNCHANGED <<now, cfg>>
       [] OTHER -> UNCHANGED <<now, cfg, m, skip, viol, fired>>

Spec == Init /\ [][Next]_vars

Emit == l <= Len(Trace) \/ JsonSerialize(OutFile, [consumed |-> l - 1, len |-> Len(Trace), viol |-> viol, fired |-> fired, drift |-> {}])
=============================================================================
