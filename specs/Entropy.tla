------------------------------ MODULE Entropy ------------------------------
(***************************************************************************)
(* C06: unpredictability of session ids, state and nonce, as an attacker-  *)
(* knowledge closure (Dolev-Yao style).  Every login discloses its state,  *)
(* nonce and code challenge (they travel through URLs and the provider)    *)
(* and the approximate time of the request; the session id is the secret.  *)
(* Which derivations the attacker can make depends on the class of the     *)
(* generator:                                                              *)
(*   Csprng           -- values are independent draws from an entropy      *)
(*                       source: no derivation applies;                    *)
(*   TimeSeededPrng   -- all values of a login are a function of a seed    *)
(*                       taken from the clock: the seed is found by search *)
(*                       over the time window and checked against the      *)
(*                       disclosed values, then the session id follows;    *)
(*   SharedStream     -- logins draw from one deterministic stream: the    *)
(*                       values of the next login follow from the last;    *)
(*   Correlated       -- one value is computed from another of the same or *)
(*                       of another login (reuse, truncation, copy).       *)
(* TLC shows that the invariant Secrecy holds exactly for Csprng.  Each    *)
(* derivation action has an executable witness that the harness runs       *)
(* against the real generator and the real handler; a witness that         *)
(* succeeds is logged as an attackerDerives event, which EntropyTrace.tla  *)
(* rejects.                                                                *)
(***************************************************************************)
EXTENDS Integers, FiniteSets, TLC

CONSTANTS GenClass, MaxLogins

Logins == 1..MaxLogins
Val(kind, i) == <<kind, i>>                      \* the value of a kind issued at login i
Public(i) == {Val("state", i), Val("nonce", i), Val("challenge", i), Val("time", i)}

VARIABLES issued, known, seedKnown
vars == <<issued, known, seedKnown>>

Init == issued = {} /\ known = {} /\ seedKnown = {}

Login(i) == i \notin issued /\ (i = 1 \/ (i - 1) \in issued) /\ issued' = issued \cup {i} /\ known' = known \cup Public(i) /\ UNCHANGED seedKnown

\* search the seeds in the disclosed time window; a candidate is confirmed by reproducing the disclosed state and nonce
DeriveFromTimeSeed(i) ==
  /\ GenClass = "TimeSeededPrng" /\ i \in issued
  /\ {Val("time", i), Val("state", i), Val("nonce", i)} \subseteq known
  /\ seedKnown' = seedKnown \cup {i} /\ known' = known \cup {Val("sid", i)} /\ UNCHANGED issued

\* one deterministic stream: what login i drew determines what login i+1 draws
DeriveFromSibling(i) ==
  /\ GenClass = "SharedStream" /\ i \in issued /\ (i + 1) \in issued
  /\ Val("state", i) \in known
  /\ known' = known \cup {Val("sid", i + 1), Val("sid", i)} /\ UNCHANGED <<issued, seedKnown>>

\* a secret value that is a function of disclosed values (of this or of an earlier login)
DeriveFromPublic(i) ==
  /\ GenClass = "Correlated" /\ i \in issued /\ Val("state", i) \in known
  /\ known' = known \cup {Val("sid", i)} /\ UNCHANGED <<issued, seedKnown>>

Next == \E i \in Logins : Login(i) \/ DeriveFromTimeSeed(i) \/ DeriveFromSibling(i) \/ DeriveFromPublic(i)
Spec == Init /\ [][Next]_vars

\* no session id ever enters the attacker's knowledge
Secrecy == \A i \in Logins : Val("sid", i) \notin known
=============================================================================
