#!/bin/bash
# usage: build.sh <outdir>  -- builds the harness test binary from /repo's working tree via overlay
set -e
OUT=${1:?outdir}
mkdir -p "$OUT"
. /verif/bin/goenv.sh
python3 - "$OUT" <<'PY'
import json,glob,os,sys
out=sys.argv[1]
ov={"Replace":{}}
for f in glob.glob('/verif/harness/sys/*.go'):
    ov["Replace"]["/repo/internal/zz_verif/"+os.path.basename(f)]=f
for f in glob.glob('/verif/harness/shims/*_shim.go'):
    pkg=os.path.basename(f)[:-len('_shim.go')]
    sub={"oidc":"internal/oidc","k8s":"internal/k8s","internal":"internal","authz":"internal/authz","server":"internal/server"}[pkg]
    ov["Replace"]["/repo/%s/zz_verif_shim%s.go"%(sub, "_test" if pkg.endswith("_t") else "")]=f
json.dump(ov,open(out+'/overlay.json','w'),indent=1)
PY
cd /repo && go test -tags verif -overlay "$OUT/overlay.json" -vet=off -c -o "$OUT/sys.test" ./internal/zz_verif/
