package zzverif

import (
	"context"
	"errors"
	"fmt"
	mrserver "github.com/alicebob/miniredis/v2/server"
	"strconv"
	"strings"
	"sync"
	"time"

	"github.com/lestrrat-go/jwx/v2/jwk"
	"google.golang.org/protobuf/proto"

	oidcv1 "github.com/istio-ecosystem/authservice/config/gen/go/v1/oidc"
	"github.com/istio-ecosystem/authservice/internal/oidc"
)

var errInjected = errors.New("verif: injected store fault")

// spyFactory wraps the real session-store factory: every store it hands out is
// wrapped by a spy that gates, logs, probes and injects faults.
type spyFactory struct {
	d     *driver
	real  oidc.SessionStoreFactory
	mu    sync.Mutex
	spies map[oidc.SessionStore]*spyStore
	tag   string // replica tag, part of the store ids
}

func (f *spyFactory) Get(cfg *oidcv1.OIDCConfig) oidc.SessionStore {
	f.mu.Lock()
	defer f.mu.Unlock()
	rs := f.real.Get(cfg)
	if rs == nil {
		return nil
	}
	if s, ok := f.spies[rs]; ok {
		return s
	}
	id := f.tag + "s" + itoa(len(f.spies)+1)
	s := &spyStore{d: f.d, real: rs, id: id}
	f.spies[rs] = s
	return s
}

type spyStore struct {
	d    *driver
	real oidc.SessionStore
	id   string
}

func (s *spyStore) do(ctx context.Context, op, sid string, arg map[string]any, run func() (map[string]any, error)) error {
	d := s.d
	g := d.arrive("store", map[string]any{"op": op, "check": d.checkOf(ctx)})
	if d.parallel && g.check == d.orphan {
		// truly parallel flows attribute a store call by its context; a call made on a detached context (a write that must
		// outlive the request) is attributed to the check in flight that presented this session id, and not logged if none did
		d.mu.Lock()
		owner := d.bySid[sid]
		d.mu.Unlock()
		if owner == nil {
			_, err := run()
			return err
		}
		g.check = owner
	}
	ev := map[string]any{"ev": "store", "n": g.check.n, "c": g.check.id, "f": g.check.f, "store": s.id, "op": op,
		"sid": d.symSid(sid), "fault": "none", "arg": arg, "lin": 0, "cmdFaultHit": false}
	fault := g.dir.Fault
	if fault == "" {
		fault = "none"
	}
	ev["fault"] = fault
	var (
		res map[string]any
		err error
	)
	if fault == "before" {
		err = errInjected
		res = map[string]any{"ex": false}
	} else if strings.HasPrefix(fault, "hold") {
		// park this store call after its k-th Redis command until the scheduler resumes the check: other checks run in between
		k, _ := strconv.Atoi(strings.TrimPrefix(fault, "hold"))
		lin := d.holdAfterRedisCommand(g.check, k)
		res, err = run()
		d.clearRedisHook()
		if *lin > 0 {
			ev["lin"] = *lin // position in the trace at which the call was parked: its reads had been made by then
		}
	} else if strings.HasPrefix(fault, "slow") {
		// the k-th Redis command of this call is answered late (real time): "slow<k>:<milliseconds>"
		var k, ms int
		_, _ = fmt.Sscanf(fault, "slow%d:%d", &k, &ms)
		n := 0
		for _, m := range d.env.mr {
			m.Server().SetPreHook(func(c *mrserver.Peer, cmd string, args ...string) bool {
				n++
				if n == k {
					time.Sleep(time.Duration(ms) * time.Millisecond)
				}
				return false
			})
		}
		res, err = run()
		d.clearRedisHook()
	} else if strings.HasPrefix(fault, "cmd") {
		// fail exactly the k-th Redis command this store call issues (a fault between two commands of one call)
		k, _ := strconv.Atoi(strings.TrimPrefix(fault, "cmd"))
		hit := d.failRedisCommand(k)
		res, err = run()
		d.clearRedisHook()
		ev["cmdFaultHit"] = *hit
	} else {
		res, err = run()
		if fault == "after" {
			err = errInjected
			res = map[string]any{"ex": false}
		}
	}
	if res == nil {
		res = map[string]any{"ex": false}
	}
	if g.check.quiet {
		return err
	}
	ev["res"] = res
	ev["err"] = err != nil
	ev["probe"] = d.probe(s, sid, g.check.f)
	d.rec.emit(ev)
	return err
}

func (s *spyStore) tokMap(t *oidc.TokenResponse) map[string]any {
	if t == nil {
		return map[string]any{"ex": false}
	}
	d := s.d
	exp, known := int64(0), !t.AccessTokenExpiresAt.IsZero()
	if known {
		exp = d.relSec(t.AccessTokenExpiresAt)
	}
	return map[string]any{"ex": true, "id": d.symTok("id", t.IDToken), "at": d.symTok("at", t.AccessToken),
		"rt": d.symTok("rt", t.RefreshToken), "atExp": exp, "atExpKnown": known}
}

func (s *spyStore) authMap(a *oidc.AuthorizationState) map[string]any {
	if a == nil {
		return map[string]any{"ex": false}
	}
	d := s.d
	return map[string]any{"ex": true, "state": d.rec.sym("st", a.State), "nonce": d.rec.sym("n", a.Nonce),
		"url": d.symURL(a.RequestedURL), "verifier": d.rec.noteVerifier(a.CodeVerifier)}
}

func (s *spyStore) SetTokenResponse(ctx context.Context, sid string, t *oidc.TokenResponse) error {
	return s.do(ctx, "SetTokenResponse", sid, s.tokMap(t), func() (map[string]any, error) {
		return nil, s.real.SetTokenResponse(ctx, sid, t)
	})
}

func (s *spyStore) GetTokenResponse(ctx context.Context, sid string) (out *oidc.TokenResponse, err error) {
	err = s.do(ctx, "GetTokenResponse", sid, map[string]any{"ex": false}, func() (map[string]any, error) {
		var e error
		out, e = s.real.GetTokenResponse(ctx, sid)
		if out != nil && out.RefreshToken != "" && s.d.parallel {
			if c, ok := s.d.checkOf(ctx).(*checkRun); ok {
				s.d.big.Lock()
				s.d.rtReader[out.RefreshToken] = c
				s.d.big.Unlock()
			}
		}
		return s.tokMap(out), e
	})
	if err != nil {
		out = nil
	}
	return
}

func (s *spyStore) SetAuthorizationState(ctx context.Context, sid string, a *oidc.AuthorizationState) error {
	return s.do(ctx, "SetAuthorizationState", sid, s.authMap(a), func() (map[string]any, error) {
		return nil, s.real.SetAuthorizationState(ctx, sid, a)
	})
}

func (s *spyStore) GetAuthorizationState(ctx context.Context, sid string) (out *oidc.AuthorizationState, err error) {
	err = s.do(ctx, "GetAuthorizationState", sid, map[string]any{"ex": false}, func() (map[string]any, error) {
		var e error
		out, e = s.real.GetAuthorizationState(ctx, sid)
		return s.authMap(out), e
	})
	if err != nil {
		out = nil
	}
	return
}

func (s *spyStore) ClearAuthorizationState(ctx context.Context, sid string) error {
	return s.do(ctx, "ClearAuthorizationState", sid, map[string]any{"ex": false}, func() (map[string]any, error) {
		return nil, s.real.ClearAuthorizationState(ctx, sid)
	})
}

func (s *spyStore) RemoveSession(ctx context.Context, sid string) error {
	return s.do(ctx, "RemoveSession", sid, map[string]any{"ex": false}, func() (map[string]any, error) {
		return nil, s.real.RemoveSession(ctx, sid)
	})
}

func (s *spyStore) RemoveAllExpired(ctx context.Context) error { return s.real.RemoveAllExpired(ctx) }

// spyJWKS wraps the real key provider: gate, optional failure, optional key-set change.
type spyJWKS struct {
	d    *driver
	real oidc.JWKSProvider
}

func (j *spyJWKS) Get(ctx context.Context, cfg *oidcv1.OIDCConfig) (jwk.Set, error) {
	d := j.d
	g := d.arrive("jwks", map[string]any{"check": d.checkOf(ctx)})
	if d.parallel && g.check == d.orphan {
		// the refresh path validates with context.Background(): the lookup cannot be attributed; it is not logged
		return j.real.Get(ctx, cfg)
	}
	res := "ok"
	var (
		set jwk.Set
		err error
	)
	if g.dir.Jwks == "fail" {
		err = errors.New("verif: injected key-source fault")
		res = "err"
	} else {
		use := cfg
		if d.keySet() != "" && cfg.GetJwks() != "" {
			use = proto.Clone(cfg).(*oidcv1.OIDCConfig)
			use.JwksConfig = &oidcv1.OIDCConfig_Jwks{Jwks: jwksJSON(d.keySet())}
		}
		set, err = j.real.Get(ctx, use)
		if err != nil {
			res = "err"
		}
	}
	if g.check.quiet {
		return set, err
	}
	d.rec.emit(map[string]any{"ev": "jwks", "n": g.check.n, "c": g.check.id, "f": g.check.f, "res": res,
		"injected": g.dir.Jwks == "fail"})
	return set, err
}

func itoa(i int) string {
	if i == 0 {
		return "0"
	}
	neg := i < 0
	if neg {
		i = -i
	}
	s := ""
	for i > 0 {
		s = string(rune('0'+i%10)) + s
		i /= 10
	}
	if neg {
		s = "-" + s
	}
	return s
}

var _ = time.Second
