---------------------------- MODULE DispatchGen ----------------------------
(***************************************************************************)
(* Bounded-exhaustive enumeration of rule sets (C07) and chain lists (C08) *)
(* by TLC, printed as driver cases.  The invariance theorem of C07 (the    *)
(* verdict does not depend on anything after '?' or '#') is checked on the *)
(* specification itself for every enumerated rule set.                     *)
(***************************************************************************)
EXTENDS DispatchOps, TLC, Json

CONSTANTS Family, Tier
VARIABLE pick
Quick == Tier = "quick"

Alpha  == {"/", "a", ".", "?"}
Lits   == {<<>>} \cup {<<x>> : x \in Alpha} \cup {<<x, y>> : x, y \in Alpha}
Kinds  == {"exact", "prefix", "suffix"}
Pats   == [kind : Kinds, lit : Lits]
RePats == [kind : {"reContains", "rePrefix", "reSuffix", "reExact"}, lit : {<<"/">>, <<"a">>, <<"/", "a">>, <<"a", "/">>}] \cup {[kind |-> "reInvalid", lit |-> <<"(">>]}
PatLists == {<<>>} \cup {<<p>> : p \in Pats}
Rules1 == [excl : PatLists, incl : PatLists]
\* thorough: two rules, lists of two, regular expressions
SmallPats == [kind : Kinds, lit : {<<"/">>, <<"a">>, <<".">>, <<"/", "a">>, <<"a", "?">>}] \cup RePats
PatLists2 == {<<>>} \cup {<<p>> : p \in SmallPats} \cup {<<p, q>> : p, q \in {x \in SmallPats : x.kind \in {"prefix", "suffix", "reContains", "reInvalid"}}}
Rules2 == [excl : PatLists2, incl : {<<>>} \cup {<<p>> : p \in SmallPats}]

C07Space == IF Quick THEN {<<r>> : r \in Rules1} \cup {<<>>}
            ELSE {<<r>> : r \in Rules1} \cup {<<>>} \cup {<<r>> : r \in Rules2}
                 \cup {<<r, s>> : r \in {x \in Rules1 : Len(x.excl) + Len(x.incl) = 1 /\ (x.excl \o x.incl)[1].lit \in {<<"/">>, <<"a">>, <<"/", "a">>}}, s \in {x \in Rules2 : Len(x.excl) <= 1}}

\* the targets every rule set is tried on (the driver receives the same list)
TAlpha == {"/", "a", ".", "?", "#"}
Targets == {<<>>} \cup {<<x>> : x \in TAlpha} \cup {<<x, y>> : x, y \in TAlpha} \cup {<<x, y, z>> : x, y, z \in TAlpha}
           \cup {<<"/", "a", x, y>> : x, y \in TAlpha}

\* theorem of the specification: nothing after '?' or '#' matters
QueryInvariant(rules) ==
  \A p \in {t \in Targets : t # <<>> /\ "?" \notin {t[i] : i \in DOMAIN t} /\ "#" \notin {t[i] : i \in DOMAIN t} /\ Len(t) <= 2},
     sep \in {"?", "#"}, q \in {<<>>} \cup {<<x>> : x \in TAlpha} \cup {<<x, y>> : x, y \in TAlpha} :
       Triggered(rules, p) = Triggered(rules, p \o <<sep>> \o q)

---------------------------------------------------------------------------
Vals  == {<<"a">>, <<"a", "b">>}
Crits == {[crit |-> "none", hdr |-> "x", hdrLower |-> "x", val |-> <<>>]}
         \cup [crit : {"eq", "prefix"}, hdr : {"x-t"}, hdrLower : {"x-t"}, val : Vals]
         \cup {[crit |-> "eq", hdr |-> "X-T", hdrLower |-> "x-t", val |-> <<"a">>], [crit |-> "prefix", hdr |-> "X-Other", hdrLower |-> "x-other", val |-> <<"a">>]}
FKinds == {"allow", "deny", "oidc"}
FLists == {<<x>> : x \in FKinds} \cup {<<x, y>> : x, y \in FKinds} \cup (IF Quick THEN {} ELSE {<<x, y, z>> : x, y, z \in FKinds})
OneOidc(fs) == Cardinality({i \in DOMAIN fs : fs[i] = "oidc"}) <= 1
Chains == {c \in [crit : Crits, filters : FLists] : OneOidc(c.filters)}
QChains == {c \in Chains : c.crit.val # <<"a", "b">> \/ c.crit.crit = "eq"}
C08Space == IF Quick
            THEN [chains : {<<>>} \cup {<<c>> : c \in QChains} \cup {<<c, d>> : c \in {x \in QChains : Len(x.filters) = 1}, d \in {x \in QChains : x.crit.crit # "prefix" \/ Len(x.filters) = 1}},
                  allowUnmatched : BOOLEAN]
            ELSE [chains : {<<>>} \cup {<<c>> : c \in Chains} \cup {<<c, d>> : c, d \in {x \in Chains : Len(x.filters) <= 2}}
                           \cup {<<c, d, e>> : c, d, e \in {x \in Chains : Len(x.filters) = 1 /\ x.crit.hdr # "X-Other"}},
                  allowUnmatched : BOOLEAN]

Space == IF Family = "C07" THEN C07Space ELSE C08Space
Init == pick \in Space
Next == UNCHANGED pick
Spec == Init /\ [][Next]_pick

Flat(c) == [crit |-> c.crit.crit, hdr |-> c.crit.hdr, hdrLower |-> c.crit.hdrLower, val |-> c.crit.val, filters |-> c.filters]
Emit == IF Family = "C07" THEN PrintT(<<"SCN", ToJson([rules |-> pick])>>) /\ QueryInvariant(pick)
        ELSE PrintT(<<"SCN", ToJson([chains |-> [i \in DOMAIN pick.chains |-> Flat(pick.chains[i])], allowUnmatched |-> pick.allowUnmatched])>>)

TargetList == PrintT(<<"TARGETS", ToJson(Targets)>>)
=============================================================================
