package zzverif

// Hand-made compact JWS rendering for the IdP simulator. The jwx builder refuses
// ill-typed claims, which the adversarial grammar needs, so everything here is
// raw JSON + crypto/* signatures.

import (
	"crypto"
	"crypto/ecdsa"
	"crypto/elliptic"
	"crypto/hmac"
	"crypto/rand"
	"crypto/rsa"
	"crypto/sha256"
	"crypto/x509"
	"encoding/base64"
	"encoding/json"
	"encoding/pem"
	"fmt"
	"math/big"
	"sync"
)

var b64 = base64.RawURLEncoding

type keyring struct {
	k1      *rsa.PrivateKey   // configured, RS256, kid "k1"
	k2      *ecdsa.PrivateKey // configured, ES256, kid "k2" (no alg in the JWK)
	foreign *rsa.PrivateKey   // not configured, kid "k1" reused on purpose
	k3      *rsa.PrivateKey   // replacement key used by "key change" scenarios, kid "k3"
}

var (
	keysOnce sync.Once
	keys     keyring
)

func getKeys() *keyring {
	keysOnce.Do(func() {
		var err error
		if keys.k1, err = rsa.GenerateKey(rand.Reader, 2048); err != nil {
			panic(err)
		}
		if keys.foreign, err = rsa.GenerateKey(rand.Reader, 2048); err != nil {
			panic(err)
		}
		if keys.k3, err = rsa.GenerateKey(rand.Reader, 2048); err != nil {
			panic(err)
		}
		if keys.k2, err = ecdsa.GenerateKey(elliptic.P256(), rand.Reader); err != nil {
			panic(err)
		}
	})
	return &keys
}

func rsaJWK(kid string, k *rsa.PublicKey, withAlg bool) map[string]any {
	m := map[string]any{
		"kty": "RSA", "kid": kid, "use": "sig",
		"n": b64.EncodeToString(k.N.Bytes()),
		"e": b64.EncodeToString(big.NewInt(int64(k.E)).Bytes()),
	}
	if withAlg {
		m["alg"] = "RS256"
	}
	return m
}

func ecJWK(kid string, k *ecdsa.PublicKey) map[string]any {
	pad := func(b []byte) []byte {
		out := make([]byte, 32)
		copy(out[32-len(b):], b)
		return out
	}
	return map[string]any{
		"kty": "EC", "kid": kid, "crv": "P-256", "use": "sig",
		"x": b64.EncodeToString(pad(k.X.Bytes())),
		"y": b64.EncodeToString(pad(k.Y.Bytes())),
	}
}

// jwksJSON returns the configured key set. which: "k1k2" (default) or "k3" (after a key change).
func jwksJSON(which string) string {
	ks := getKeys()
	var list []any
	switch which {
	case "k3":
		list = []any{rsaJWK("k3", &ks.k3.PublicKey, true)}
	default:
		list = []any{rsaJWK("k1", &ks.k1.PublicKey, true), ecJWK("k2", &ks.k2.PublicKey)}
	}
	b, _ := json.Marshal(map[string]any{"keys": list})
	return string(b)
}

// tokenSpec is the ground truth of a rendered ID token.
type tokenSpec struct {
	SignKey string // "" / "k1" (RS256 k1, or ES256 k2 for odd variants) | "k3"
	Class   string // rendering class (see mintID)
	Aud     any    // value of the aud claim (nil = absent)
	Nonce   any    // value of the nonce claim (nil = absent)
	Exp     int64  // unix seconds
	Iat     int64
	Sub     string
	Jti     string
	Variant int
	Iss     string // issuer ("" = https://idp.verif)
	Azp     string // authorized party claim ("" = absent)
	Nbf     int64  // not-before claim (0 = absent)
	Groups  int    // number of group names in a "groups" claim (large tokens)
	Graft   string // class graftedOnAccepted: an honestly signed token the service was given earlier
}

func signRS256(k *rsa.PrivateKey, input string) []byte {
	h := sha256.Sum256([]byte(input))
	sig, err := rsa.SignPKCS1v15(rand.Reader, k, crypto.SHA256, h[:])
	if err != nil {
		panic(err)
	}
	return sig
}

func signES256(k *ecdsa.PrivateKey, input string) []byte {
	h := sha256.Sum256([]byte(input))
	r, s, err := ecdsa.Sign(rand.Reader, k, h[:])
	if err != nil {
		panic(err)
	}
	out := make([]byte, 64)
	rb, sb := r.Bytes(), s.Bytes()
	copy(out[32-len(rb):32], rb)
	copy(out[64-len(sb):], sb)
	return out
}

func jsonSeg(v any) string {
	b, err := json.Marshal(v)
	if err != nil {
		panic(err)
	}
	return b64.EncodeToString(b)
}

// mintID renders the compact form for the given spec. It returns the token and
// whether the signature is genuinely valid under the configured key set (sigOK).
func mintID(ts tokenSpec) (tok string, sigOK bool) {
	ks := getKeys()
	// (with the profile claims providers usually add)
	iss := ts.Iss
	if iss == "" {
		iss = "https://idp.verif"
	}
	claims := map[string]any{"iss": iss, "sub": ts.Sub, "exp": ts.Exp, "iat": ts.Iat, "jti": ts.Jti,
		"email": ts.Sub + "@example.com", "email_verified": true, "name": "User " + ts.Sub, "preferred_username": ts.Sub}
	if ts.Aud != nil {
		claims["aud"] = ts.Aud
	}
	if ts.Nonce != nil {
		claims["nonce"] = ts.Nonce
	}
	if ts.Nbf != 0 {
		claims["nbf"] = ts.Nbf
	}
	if ts.Azp != "" {
		claims["azp"] = ts.Azp
	}
	if ts.Groups > 0 {
		gs := make([]string, ts.Groups)
		for i := range gs {
			gs[i] = fmt.Sprintf("cn=group-%04d,ou=teams,dc=example", i)
		}
		claims["groups"] = gs
	}
	payload := jsonSeg(claims)
	hdr := func(alg, kid string) string {
		h := map[string]any{"alg": alg, "typ": "JWT"}
		if kid != "" {
			h["kid"] = kid
		}
		return jsonSeg(h)
	}
	rs := func(kid string, k *rsa.PrivateKey) string {
		in := hdr("RS256", kid) + "." + payload
		return in + "." + b64.EncodeToString(signRS256(k, in))
	}
	switch ts.Class {
	case "good", "audAbsent", "audForeign", "audNearMiss", "audArrayWithClient", "audForeignAzpClient",
		"nonceAbsent", "nonceForeign", "nonceNearMiss", "nonceEmpty", "nonceNonString", "expired":
		// claims differ (set by the caller), the signature is honest
		if ts.SignKey == "k3" {
			return rs("k3", ks.k3), true
		}
		if ts.Variant%2 == 1 {
			in := hdr("ES256", "k2") + "." + payload
			return in + "." + b64.EncodeToString(signES256(ks.k2, in)), true
		}
		return rs("k1", ks.k1), true
	case "goodK3":
		return rs("k3", ks.k3), true // valid only after the key set was changed to k3
	case "algNone":
		in := hdr("none", pick(ts.Variant, "k1", "")) + "." + payload
		if ts.Variant%3 == 2 {
			in = jsonSeg(map[string]any{"alg": "None", "typ": "JWT", "kid": "k1"}) + "." + payload
		}
		return in + ".", false
	case "hmacWithPublicKey":
		in := hdr("HS256", "k1") + "." + payload
		var key []byte
		der, _ := x509.MarshalPKIXPublicKey(&ks.k1.PublicKey)
		switch ts.Variant % 3 {
		case 0:
			key = pem.EncodeToMemory(&pem.Block{Type: "PUBLIC KEY", Bytes: der})
		case 1:
			key = der
		default:
			key = ks.k1.PublicKey.N.Bytes()
		}
		m := hmac.New(sha256.New, key)
		m.Write([]byte(in))
		return in + "." + b64.EncodeToString(m.Sum(nil)), false
	case "foreignKey":
		return rs(pick(ts.Variant, "k1", "kX"), ks.foreign), false
	case "kidMissing":
		return rs("", ks.k1), true
	case "kidOfOtherKey":
		return rs("k2", ks.k1), true
	case "payloadTampered":
		good := rs("k1", ks.k1)
		parts := splitDots(good)
		claims["sub"] = "admin"
		return parts[0] + "." + jsonSeg(claims) + "." + parts[2], false
	case "graftedOnAccepted":
		// header and signature of a token the service accepted earlier, around a payload of the attacker's choosing
		if parts := splitDots(ts.Graft); len(parts) == 3 {
			return parts[0] + "." + payload + "." + parts[2], false
		}
		parts := splitDots(rs("k1", ks.k1))
		claims["sub"] = "admin"
		return parts[0] + "." + jsonSeg(claims) + "." + parts[2], false
	case "sigTampered":
		in := hdr("RS256", "k1") + "." + payload
		sig := signRS256(ks.k1, in)
		sig[len(sig)/2] ^= 0x01
		return in + "." + b64.EncodeToString(sig), false
	case "sigStripped":
		in := hdr("RS256", "k1") + "." + payload
		if ts.Variant%2 == 1 {
			return in, false
		}
		return in + ".", false
	case "nestedJws":
		inner := rs("k1", ks.k1)
		in := jsonSeg(map[string]any{"alg": "none", "cty": "JWT"}) + "." + b64.EncodeToString([]byte(inner))
		return in + ".", false
	case "garbage":
		return pick(ts.Variant, "not-a-jwt-"+ts.Jti, "a.b.c."+ts.Jti, "..", "e30.e30."+ts.Jti), false
	}
	panic(fmt.Sprintf("unknown token class %q", ts.Class))
}

func pick(i int, opts ...string) string { return opts[((i%len(opts))+len(opts))%len(opts)] }

func splitDots(s string) []string {
	var out []string
	cur := ""
	for _, r := range s {
		if r == '.' {
			out = append(out, cur)
			cur = ""
		} else {
			cur += string(r)
		}
	}
	return append(out, cur)
}
