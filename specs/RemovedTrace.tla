---------------------------- MODULE RemovedTrace ----------------------------
(***************************************************************************)
(* "Removed stays removed" on concurrent histories of the in-memory store  *)
(* (C09 at store level: what a logout removed does not come back unless    *)
(* somebody writes it).  The trace holds an `sinv` event before every      *)
(* store call and an `sret` event after it, in real-time order.  Unlike    *)
(* LinTrace this is no search: one deterministic pass keeps, per session   *)
(* id, whether a RemoveSession has RETURNED with no write to that id in    *)
(* flight at any moment since that removal was invoked (`clean`).  A read  *)
(* that is invoked while the id is clean and returns something, with no    *)
(* write to the id invoked in between, has seen a session that nobody put  *)
(* there: the store's own clean-up (or any other internal actor) brought   *)
(* it back.                                                                *)
(***************************************************************************)
EXTENDS Integers, Sequences, FiniteSets, TLC, Json
CONSTANTS TraceFile, OutFile
Trace == ndJsonDeserialize(TraceFile)
VARIABLES l, sc, writes, rm, rd, clean, viol, fired
vars == <<l, sc, writes, rm, rd, clean, viol, fired>>
E == Trace[l]
Has(f, k) == k \in DOMAIN f
Put(f, k, v) == [x \in (DOMAIN f) \cup {k} |-> IF x = k THEN v ELSE f[x]]
Del(f, k) == [x \in (DOMAIN f) \ {k} |-> f[x]]
Bump(f, k) == IF Has(f, k) THEN [f EXCEPT ![k] = @ + 1] ELSE Put(f, k, 1)
Writes(sid) == IF Has(writes, sid) THEN writes[sid] ELSE 0
IsWrite(op) == op \in {"SetTok", "SetAuth"}
IsRead(op) == op \in {"GetTok", "GetAuth"}

Init == l = 1 /\ sc = "none" /\ writes = <<>> /\ rm = <<>> /\ rd = <<>> /\ clean = {} /\ viol = {} /\ fired = <<>>

Reset == E.ev = "sreset" /\ sc' = E.scenario /\ writes' = <<>> /\ rm' = <<>> /\ rd' = <<>> /\ clean' = {}
         /\ fired' = Bump(fired, "histories") /\ UNCHANGED viol
Inv ==
  /\ E.ev = "sinv"
  /\ IF IsWrite(E.op)
     THEN /\ writes' = Put(writes, E.sid, Writes(E.sid) + 1)
          /\ clean' = clean \ {E.sid}
          /\ rm' = [t \in DOMAIN rm |-> IF rm[t].sid = E.sid THEN [rm[t] EXCEPT !.dirty = TRUE] ELSE rm[t]]
          /\ rd' = [t \in DOMAIN rd |-> IF rd[t].sid = E.sid THEN [rd[t] EXCEPT !.clean = FALSE] ELSE rd[t]]
     ELSE IF E.op = "Remove"
     THEN rm' = Put(rm, E.thr, [sid |-> E.sid, dirty |-> Writes(E.sid) > 0]) /\ UNCHANGED <<writes, clean, rd>>
     ELSE IF IsRead(E.op)
     THEN rd' = Put(rd, E.thr, [sid |-> E.sid, clean |-> E.sid \in clean]) /\ UNCHANGED <<writes, clean, rm>>
     ELSE UNCHANGED <<writes, clean, rm, rd>>
  /\ UNCHANGED <<sc, viol, fired>>
Ret ==
  /\ E.ev = "sret"
  /\ IF IsWrite(E.op) THEN writes' = Put(writes, E.sid, Writes(E.sid) - 1) /\ UNCHANGED <<clean, rm, rd, viol, fired>>
     ELSE IF E.op = "Remove" /\ Has(rm, E.thr)
     THEN /\ clean' = IF ~rm[E.thr].dirty /\ ~E.err THEN clean \cup {E.sid} ELSE clean
          /\ rm' = Del(rm, E.thr) /\ fired' = Bump(fired, "removals") /\ UNCHANGED <<writes, rd, viol>>
     ELSE IF IsRead(E.op) /\ Has(rd, E.thr)
     THEN /\ viol' = IF rd[E.thr].clean /\ E.res # 0
                     THEN viol \cup {[p |-> "C09", m |-> "RemovedStaysRemoved", cause |-> "removed-session-is-back-without-a-write", sc |-> sc, n |-> 0, at |-> l]}
                     ELSE viol
          /\ fired' = IF rd[E.thr].clean THEN Bump(fired, "readsOfRemoved") ELSE fired
          /\ rd' = Del(rd, E.thr) /\ UNCHANGED <<writes, clean, rm>>
     ELSE UNCHANGED <<writes, clean, rm, rd, viol, fired>>
  /\ UNCHANGED sc
\* a clock advance happens between calls only; what it times out is gone, which only helps `clean`
Other == E.ev \notin {"sreset", "sinv", "sret"} /\ UNCHANGED <<sc, writes, rm, rd, clean, viol, fired>>

Next == l <= Len(Trace) /\ l' = l + 1 /\ (Reset \/ Inv \/ Ret \/ Other)
Spec == Init /\ [][Next]_vars
Emit == l <= Len(Trace) \/ JsonSerialize(OutFile, [consumed |-> l - 1, len |-> Len(Trace), viol |-> viol, drift |-> {}, fired |-> fired])
=============================================================================
