package zzverif

import (
	"context"
	"encoding/json"
	"fmt"
	"net/url"
	"os"
	"path/filepath"
	"runtime/debug"
	"sort"
	"strings"
	"sync"
	"sync/atomic"
	"time"

	"github.com/alicebob/miniredis/v2"
	corev3 "github.com/envoyproxy/go-control-plane/envoy/config/core/v3"
	envoy "github.com/envoyproxy/go-control-plane/envoy/service/auth/v3"
	tlog "github.com/tetratelabs/log"
	"github.com/tetratelabs/telemetry"
	"google.golang.org/protobuf/encoding/protojson"

	configv1 "github.com/istio-ecosystem/authservice/config/gen/go/v1"
	"github.com/istio-ecosystem/authservice/internal"
	"github.com/istio-ecosystem/authservice/internal/k8s"
	"github.com/istio-ecosystem/authservice/internal/oidc"
	"github.com/istio-ecosystem/authservice/internal/server"
	"sigs.k8s.io/controller-runtime/pkg/client"
	"sigs.k8s.io/controller-runtime/pkg/client/fake"
)

const redisPassword = "r3d1s-Pa55"

const (
	appHost   = "app.test"
	chainHdr  = "x-verif-chain"
	cookieSfx = "authservice-session-id-cookie"
)

var baseTime = time.Unix(2_000_000_000, 0).UTC()

// urlPool: originally requested path[?query] values, including reserved, encoded and non-ASCII characters.
var urlPool = []string{
	"/app",
	"/app/page?x=1&y=two",
	"/a%20b/c?q=a%2Bb&r=%E2%9C%93",
	"/p?redirect=https%3A%2F%2Fevil.example%2F%3Fa%3Db&x=%26%3D",
	"/ü/ñ?k=ü&z=✓",
	"/p;param=1?a=b;c=d&e=f+g",
	"/?",
	"/x?a=1&a=2&&=&b",
	"/deep/../up/./q?%zz=1&state=fake&code=fake",
	"/q?u=a b\"c<d>",
	// (indexes 10..17) paths next to the callback and logout paths of filter f1
	"/f1/session",
	"/f1/callback/session?x=1",
	"/f1/callback/",
	"/f1/Callback",
	"/f1/callbackx?code=1&state=2",
	"/f1/logout/now",
	"/f1/userinfo",
	"/f1",
}

type gate struct {
	check   *checkRun
	kind    string
	info    map[string]any
	dir     Directive
	release chan Directive
}

type checkRun struct {
	id      string
	n       int
	f       string
	b       string
	done    chan struct{}
	pending *gate
	gates   int
	resp    *envoy.CheckResponse
	err     error
	pan     any
	stack   string
	fin     bool
	defAns  *AnsSpec
	dirs    map[string]*Directive
	expect  string
	r       int                // replica that serves the check
	cancel  context.CancelFunc // cancels the context the request runs on
	quiet   bool               // only the request and the answer are logged (hammered checks: their store events are not ordered by the trace)
}

type browser struct {
	jar      map[string]string // cookie name -> value
	lastLoc  string
	lastCode string // code minted for the browser's last authorize visit
	lastSt   string
}

type env struct {
	cfgFile  *internal.LocalConfigFile
	cfg      *configv1.Config
	filter   *server.ExtAuthZFilter
	replicas []*server.ExtAuthZFilter // replicas[0] == filter
	fronts   []*grpcFront             // per replica, when the scenario asks for the gRPC path
	factory  *spyFactory
	mr       map[string]*miniredis.Miniredis
	cancel   context.CancelFunc
	spec     CfgSpec
	fspec    map[string]*FilterSpec
	kube     client.Client
	secrets  *k8s.SecretController
	curSec   map[string]string // Kubernetes Secret name -> current value
}

type driver struct {
	rec     *recorder
	idp     *idp
	tmp     string
	arrived chan *gate

	jitter  atomic.Bool
	serving sync.Map             // gRPC path: check number -> channel closed when the handler serving it has returned
	fracMs  int64                // milliseconds past the whole second d.now (tickms)
	bySid   map[string]*checkRun // parallel mode: session id presented -> the check in flight that presented it
	mu      sync.Mutex
	cur     *checkRun
	now     int64
	ks      string
	env     *env
	checks  map[string]*checkRun
	nChecks int
	issued  []string          // session ids in order of issue (Set-Cookie)
	logins  map[string]*login // sid value -> login ghost taken from the authorize answer
	brs     map[string]*browser
	forged  int
	scID    string
	scN     int

	oldSecrets []string
	parallel   bool                 // a "parallel" step is running: no gates, attribution by context / code / refresh token
	big        sync.Mutex           // serialises the harness' own bookkeeping in parallel mode
	codeOwner  map[string]*checkRun // authorization code -> the callback check that carried it
	rtReader   map[string]*checkRun // refresh token -> the check that last read it from the store
	orphan     *checkRun
	realTime   bool                                                                     // binary mode: the virtual clock follows the wall clock
	checkFn    func(context.Context, *envoy.CheckRequest) (*envoy.CheckResponse, error) // binary mode: Check over gRPC
}

func newDriver(out, tmp string) (*driver, error) {
	rec, err := newRecorder(out)
	if err != nil {
		return nil, err
	}
	d := &driver{rec: rec, tmp: tmp, arrived: make(chan *gate)}
	d.idp = newIDP(d)
	var clockReads atomic.Uint64
	oidc.VerifSetNow(func() time.Time {
		if d.jitter.Load() {
			// while same-session requests are hammered in parallel, reading the clock takes a while now and then: whatever
			// window a store operation leaves open between two of its steps gets wider (no effect while a lock is held)
			if n := clockReads.Add(1); n%1 == 0 {
				time.Sleep(time.Duration(100+(n*7919)%900) * time.Microsecond)
			}
		}
		d.mu.Lock()
		frac := d.fracMs
		d.mu.Unlock()
		return baseTime.Add(time.Duration(d.nowSec())*time.Second + time.Duration(frac)*time.Millisecond)
	})
	return d, nil
}

func (d *driver) close() {
	d.teardown()
	d.idp.srv.Close()
	d.rec.close()
}

func (d *driver) nowSec() int64 {
	d.mu.Lock()
	defer d.mu.Unlock()
	return d.now
}
func (d *driver) unix(rel int64) int64 {
	if d.realTime {
		return time.Now().Unix() + rel
	}
	return baseTime.Unix() + rel
}

// relSec is the floor of t in whole seconds on the virtual time axis.
func (d *driver) relSec(t time.Time) int64 {
	dd := t.Sub(baseTime)
	s := int64(dd / time.Second)
	if dd%time.Second < 0 {
		s--
	}
	return s
}
func (d *driver) relNs(t time.Time) int64 {
	if t.IsZero() {
		return 0
	}
	ns := t.Sub(baseTime) % time.Second
	return int64(ns)
}
func (d *driver) keySet() string {
	d.mu.Lock()
	defer d.mu.Unlock()
	return d.ks
}
func (d *driver) setKeySet(k string) {
	d.mu.Lock()
	defer d.mu.Unlock()
	if k == "k1k2" {
		k = ""
	}
	d.ks = k
}

// ---- symbols ---------------------------------------------------------------

func (d *driver) symSid(v string) string {
	if v == "" {
		return "none"
	}
	if s, ok := d.rec.lookup("forged", v); ok {
		return s
	}
	return d.rec.sym("sid", v)
}

func (d *driver) symTok(cat, v string) string {
	if v == "" {
		return "none"
	}
	if s, ok := d.rec.lookup(cat, v); ok {
		return s
	}
	return "raw:" + cat
}

func (d *driver) symURL(v string) string {
	if s, ok := d.rec.lookup("url", v); ok {
		return s
	}
	for i, u := range urlPool {
		if v == "https://"+appHost+u {
			return fmt.Sprintf("u%d", i)
		}
	}
	if s, ok := d.rec.lookup("url", v); ok {
		return s
	}
	return "rawurl:" + v
}

func (d *driver) symClientIDFor(v, fname string) string {
	if f := d.env.fspec[fname]; f != nil && v != "" && f.ClientID == v {
		return "cid:" + f.Name
	}
	return d.symClientID(v)
}

func (d *driver) symClientSecretFor(v, fname string) string {
	if f := d.env.fspec[fname]; f != nil && v != "" && d.curSecretOf(f) == v {
		return "sec:" + f.Name
	}
	return d.symClientSecret(v)
}

func (d *driver) symClientID(v string) string {
	if v == "" {
		return "none"
	}
	for _, f := range d.env.spec.Filters {
		if f.ClientID == v {
			return "cid:" + f.Name
		}
	}
	return "cid:unknown"
}

// curSecretOf is the client secret the provider expects from a filter right now (static, or the referenced Secret's value)
func (d *driver) curSecretOf(f *FilterSpec) string {
	if f.SecretRef != "" {
		return d.env.curSec[f.SecretRef]
	}
	return f.ClientSecret
}

func (d *driver) symClientSecret(v string) string {
	if v == "" {
		return "none"
	}
	for i := range d.env.spec.Filters {
		f := &d.env.spec.Filters[i]
		if d.curSecretOf(f) == v {
			return "sec:" + f.Name
		}
	}
	for _, old := range d.oldSecrets {
		if old == v {
			return "sec:stale"
		}
	}
	return "sec:unknown"
}

// secretOfClient: the secret the provider accepts for this client id at this endpoint
func (d *driver) secretOfClient(id string) string {
	for i := range d.env.spec.Filters {
		f := &d.env.spec.Filters[i]
		if f.ClientID == id {
			return d.curSecretOf(f)
		}
	}
	return "\x00no-such-client"
}

func (d *driver) symRedirect(v string) string {
	if c := d.curCheck(); c != nil {
		if f := d.env.fspec[c.f]; f != nil && callbackURI(f) == v {
			return "cb:" + f.Name
		}
	}
	for _, f := range d.env.spec.Filters {
		if callbackURI(&f) == v {
			return "cb:" + f.Name
		}
	}
	return "cb:unknown"
}

func (d *driver) curCheck() *checkRun {
	d.mu.Lock()
	defer d.mu.Unlock()
	return d.cur
}

func callbackURI(f *FilterSpec) string {
	host := appHost
	if f.CallbackPort != "" {
		host += ":" + f.CallbackPort
	}
	if f.SharedCallback {
		return "https://" + host + "/shared/callback"
	}
	return "https://" + host + "/" + f.Name + "/callback"
}

func callbackPath(f *FilterSpec) string {
	u, err := url.Parse(callbackURI(f))
	if err != nil {
		panic(err)
	}
	return u.Path
}
func logoutPath(f *FilterSpec) string {
	if f.InheritLogout && f.inheritedLogoutPath != "" {
		return f.inheritedLogoutPath
	}
	if f.LogoutSlash {
		return "/" + f.Name + "/logout/"
	}
	return "/" + f.Name + "/logout"
}
func cookieName(f *FilterSpec) string {
	if f.Prefix != "" {
		return "__Host-" + f.Prefix + "-" + cookieSfx
	}
	return "__Host-" + cookieSfx
}

// ---- environment -----------------------------------------------------------

func (d *driver) teardown() {
	if d.env == nil {
		return
	}
	for _, fr := range d.env.fronts {
		fr.close()
	}
	d.env.cancel()
	for _, m := range d.env.mr {
		m.Close()
	}
	d.dropStable(d.env)
	d.env = nil
}

func (d *driver) authzEndpoint(f *FilterSpec) string {
	u := d.idp.base(f.IdpID) + "/authorize"
	if f.AuthzQuery != "" && !f.Discovery {
		u += "?" + f.AuthzQuery
	}
	return u
}

// discoveryURL: all providers share one path; the provider (and the document variant) is selected by the query
func (d *driver) discoveryURL(f *FilterSpec) string {
	id := f.IdpID
	if id == "" {
		id = "A"
	}
	// (the service caches discovery documents per URL for the life of the process: every scenario gets URLs of its own)
	u := d.idp.srv.URL + "/X/.well-known/openid-configuration?sc=" + itoa(d.scN) + "&idp=" + id
	if f.DiscoveryDoc != "" {
		u += "&doc=" + f.DiscoveryDoc
	}
	return u
}

func (d *driver) logoutRedirect(f *FilterSpec) string {
	if f.LogoutRedirect != "" {
		return f.LogoutRedirect
	}
	return d.idp.base(f.IdpID) + "/discovered-end-session"
}

func (d *driver) setup(spec CfgSpec) error {
	d.teardown()
	e := &env{spec: spec, mr: map[string]*miniredis.Miniredis{}, fspec: map[string]*FilterSpec{}}
	var chains []any
	var defaultOIDC map[string]any
	defaultLogoutPath := ""
	for i := range spec.Filters {
		f := &spec.Filters[i]
		if f.ClientID == "" {
			f.ClientID = "client-" + f.Name
		}
		if f.ClientSecret == "" {
			// (with the characters provider-issued secrets contain: an environment-variable look-alike, percent, plus, slash, equals, bang)
			f.ClientSecret = "CS-" + f.Name + "-k9Zq$HOME7Lw%41+2Xc/4Vb=6Nm!$$"
		}
		if f.IDHeader == "" {
			f.IDHeader = "authorization"
			if f.IDPreamble == "" {
				f.IDPreamble = "Bearer"
			}
		}
		if f.AccessFwd && f.ATHeader == "" {
			f.ATHeader = "x-access-token"
		}
		if f.Store == "" {
			f.Store = "memory"
		}
		e.fspec[f.Name] = f
		o := map[string]any{
			"callback_uri": callbackURI(f),
			"client_id":    f.ClientID,
			"id_token":     map[string]any{"header": f.IDHeader, "preamble": f.IDPreamble},
		}
		if f.SecretRef != "" {
			o["client_secret_ref"] = map[string]any{"name": f.SecretRef}
		} else {
			o["client_secret"] = f.ClientSecret
		}
		if f.Discovery {
			o["configuration_uri"] = d.discoveryURL(f)
		} else {
			o["authorization_uri"] = d.authzEndpoint(f)
			o["token_uri"] = d.idp.base(f.IdpID) + "/token"
		}
		if f.Jwks == "fetch" {
			o["jwks_fetcher"] = map[string]any{"jwks_uri": d.idp.base(f.IdpID) + "/jwks", "periodic_fetch_interval_sec": 1}
		} else if !f.Discovery {
			o["jwks"] = jwksJSON(f.KeySet)
		}
		if f.Scopes != nil {
			o["scopes"] = f.Scopes
		}
		if f.Prefix != "" {
			o["cookie_name_prefix"] = f.Prefix
		}
		if f.AccessFwd {
			o["access_token"] = map[string]any{"header": f.ATHeader, "preamble": f.ATPreamble}
		}
		if f.Logout {
			lo := map[string]any{"path": logoutPath(f)}
			if f.NoLogoutRedirect && f.Discovery {
				f.LogoutRedirect = ""
			} else if f.LogoutRedirect != "" {
				lo["redirect_uri"] = f.LogoutRedirect
			} else if !f.Discovery {
				f.LogoutRedirect = "https://idp.example/end-session?f=" + f.Name
				lo["redirect_uri"] = f.LogoutRedirect
			}
			o["logout"] = lo
		}
		if f.Abs > 0 {
			o["absolute_session_timeout"] = f.Abs
		}
		if f.Idle > 0 {
			o["idle_session_timeout"] = f.Idle
		}
		if strings.HasPrefix(f.Store, "redis") {
			srvName, db := f.Store, ""
			if i := strings.Index(f.Store, "#"); i >= 0 { // "redis#1": database 1 of the server "redis"
				srvName, db = f.Store[:i], "/"+f.Store[i+1:]
			}
			m, ok := e.mr[srvName]
			if !ok {
				var err error
				if m, err = miniredis.Run(); err != nil {
					return err
				}
				m.SetTime(baseTime.Add(time.Duration(d.now) * time.Second))
				if strings.HasPrefix(srvName, "redisauth") {
					m.RequireAuth(redisPassword) // a server that wants a password: the URI carries it
				}
				e.mr[srvName] = m
			}
			auth := ""
			if strings.HasPrefix(srvName, "redisauth") {
				auth = ":" + redisPassword + "@"
			}
			o["redis_session_store_config"] = map[string]any{"server_uri": "redis://" + auth + m.Addr() + db}
		}
		ftype := "oidc"
		if f.Override {
			ftype = "oidc_override"
			if defaultOIDC == nil {
				// the default carries the configuration of the first override filter, except the settings for which "not set" is
				// a value of its own (no prefix, no limit, the in-memory store): those are left to each filter's override
				defaultOIDC = map[string]any{}
				for k, v := range o {
					switch k {
					case "cookie_name_prefix", "absolute_session_timeout", "idle_session_timeout", "redis_session_store_config":
					default:
						defaultOIDC[k] = v
					}
				}
				defaultLogoutPath = logoutPath(f)
			}
			if f.InheritLogout {
				delete(o, "logout")
				f.inheritedLogoutPath = defaultLogoutPath
			}
		}
		cname := f.Name
		if f.ChainName != "" {
			cname = f.ChainName
		}
		filters := []any{map[string]any{ftype: o}}
		if f.After == "deny" || f.After == "allow" {
			filters = append(filters, map[string]any{"mock": map[string]any{"allow": f.After == "allow"}})
		}
		chains = append(chains, map[string]any{
			"name":    cname,
			"match":   map[string]any{"header": chainHdr, "equality": f.Name},
			"filters": filters,
		})
		d.rec.addSecret(f.ClientSecret, "clientSecret")
	}
	logLevel := spec.LogLevel
	if logLevel == "" {
		logLevel = "error"
	}
	doc := map[string]any{"listen_address": "127.0.0.1", "listen_port": 10003, "log_level": logLevel,
		"chains": chains, "allow_unmatched_requests": spec.AllowUnmatched}
	if defaultOIDC != nil {
		doc["default_oidc_config"] = defaultOIDC
	}
	if len(spec.TriggerRules) > 0 {
		var tr any
		_ = json.Unmarshal(spec.TriggerRules, &tr)
		doc["trigger_rules"] = tr
	}
	b, _ := json.Marshal(doc)
	p := filepath.Join(d.tmp, "config.json")
	if err := os.WriteFile(p, b, 0o600); err != nil {
		return err
	}
	ctx, cancel := context.WithCancel(context.Background())
	e.cancel = cancel
	// assembled as cmd/main.go does: the units are constructed around the configuration object of the (still unread)
	// configuration file, the file is read into that very object afterwards (sub-messages the loader shares between
	// filters stay shared), then the PreRun steps run
	cf := &internal.LocalConfigFile{}
	e.cfgFile, e.cfg = cf, &cf.Config
	logging := internal.NewLogSystem(quietLogger(), e.cfg) // first, as in main: the units below take their loggers from it
	tlsPool := internal.NewTLSConfigPool(ctx)
	jw := oidc.NewJWKSProvider(e.cfg, tlsPool)
	fac := oidc.NewSessionStoreFactory(e.cfg)
	e.factory = &spyFactory{d: d, real: fac, spies: map[oidc.SessionStore]*spyStore{}}
	var keys oidc.JWKSProvider = &spyJWKS{d: d, real: jw}
	if spec.RealJwks {
		keys = jw
	}
	e.filter = server.NewExtAuthZFilter(e.cfg, tlsPool, keys, e.factory)
	if err := cf.FlagSet().Parse([]string{"--config-path", p}); err != nil {
		cancel()
		return err
	}
	if err := cf.Validate(); err != nil {
		cancel()
		return fmt.Errorf("config rejected: %w", err)
	}
	if pr, ok := logging.(interface{ PreRun() error }); ok {
		_ = pr.PreRun() // applies log_level
	}
	if internal.Logger(internal.Config).Level() == telemetry.LevelDebug {
		_ = internal.ConfigToJSONString(e.cfg) // main's "config-log" step
	}
	startUnit(ctx, jw)
	if err := fac.PreRun(); err != nil {
		cancel()
		return err
	}
	for _, f := range spec.Filters {
		if f.SecretRef != "" {
			e.kube = fake.NewClientBuilder().Build()
			var err error
			if e.secrets, err = k8s.VerifNewController(e.cfg, "own", e.kube); err != nil {
				cancel()
				return err
			}
			break
		}
	}
	e.replicas = []*server.ExtAuthZFilter{e.filter}
	for i := 1; i < spec.Replicas; i++ {
		// a further instance of the service with the same configuration: its own stores (over the same Redis), its own key provider
		fac2 := oidc.NewSessionStoreFactory(e.cfg)
		if err := fac2.PreRun(); err != nil {
			cancel()
			return err
		}
		jw2 := oidc.NewJWKSProvider(e.cfg, tlsPool)
		startUnit(ctx, jw2)
		sf := &spyFactory{d: d, real: fac2, spies: map[oidc.SessionStore]*spyStore{}, tag: fmt.Sprintf("r%d", i)}
		e.replicas = append(e.replicas, server.NewExtAuthZFilter(e.cfg, tlsPool, &spyJWKS{d: d, real: jw2}, sf))
	}
	if spec.Grpc {
		for _, r := range e.replicas {
			fr, err := d.newGrpcFront(e, r)
			if err != nil {
				cancel()
				return err
			}
			e.fronts = append(e.fronts, fr)
		}
	}
	d.env = e
	return nil
}

// cfgEvent describes the loaded configuration for the monitors.
func (d *driver) cfgEvent(sc *Scenario) map[string]any {
	fl := []any{}
	for _, f := range d.env.spec.Filters {
		scopes := []any{}
		for _, s := range f.Scopes {
			scopes = append(scopes, s)
		}
		// (whether the endpoint's own query is retained is judged on the raw components of the Location: ownRetained)
		ownQ := map[string]any{}
		idp := f.IdpID
		if idp == "" {
			idp = "A"
		}
		fl = append(fl, map[string]any{"name": f.Name, "store": f.Store, "prefix": f.Prefix, "accessFwd": f.AccessFwd,
			"idHeader": f.IDHeader, "idPreamble": f.IDPreamble, "atHeader": f.ATHeader, "atPreamble": f.ATPreamble,
			"idHeaderL": strings.ToLower(f.IDHeader), "atHeaderL": strings.ToLower(f.ATHeader),
			"logout": f.Logout, "abs": f.Abs, "idle": f.Idle, "scopes": scopes, "ownQuery": ownQ,
			"discovery": f.Discovery, "idp": idp, "cookieName": cookieName(&f), "afterDeny": f.After == "deny", "secretRef": f.SecretRef != "", "keysObserved": !d.env.spec.RealJwks})
	}
	tags := []any{}
	for _, t := range sc.Tags {
		tags = append(tags, t)
	}
	return map[string]any{"ev": "reset", "scenario": sc.ID, "filters": fl, "tags": tags,
		"triggerRules": len(d.env.spec.TriggerRules) > 0}
}

func strs(v []string) []any {
	out := []any{}
	for _, s := range v {
		out = append(out, s)
	}
	return out
}

// ---- gates -----------------------------------------------------------------

// arrive is called by spies and by the IdP from the goroutine of the running
// check (or of the HTTP handler serving it). It blocks until the scheduler
// releases the gate and returns it with the directive filled in.
func (d *driver) arrive(kind string, info map[string]any) *gate {
	if d.parallel {
		// truly parallel flows: no gates; the check is the one the caller identified (context value, code or refresh token)
		c, _ := info["check"].(*checkRun)
		if c == nil {
			c = d.orphan
		}
		dir := Directive{Ans: c.defAns}
		return &gate{check: c, kind: kind, info: info, dir: dir}
	}
	// the check is the one the caller identified (context value, code, refresh token); a call on a detached context belongs
	// to the check the scheduler is running
	c, _ := info["check"].(*checkRun)
	if c == nil {
		d.mu.Lock()
		c = d.cur
		d.mu.Unlock()
	}
	if c == nil {
		panic("verif: gate reached with no running check")
	}
	g := &gate{check: c, kind: kind, info: info, release: make(chan Directive)}
	d.arrived <- g
	g.dir = <-g.release
	return g
}

// wait blocks until the running check reaches its next gate or finishes. A check that does neither for a while may be
// waiting for something a parked check holds (a lock the service takes per session, for instance): the schedule asked
// for cannot be realised by this implementation, so the parked checks are run to their end, oldest first, and the
// waiting goes on. What the monitors judge is what was recorded, in the order it happened.
func (d *driver) wait(c *checkRun) {
	began := time.Now()
	for {
		if c.pending != nil {
			return // it reached a gate while another check was being run to its end
		}
		select {
		case g := <-d.arrived:
			if g.check == c {
				c.pending = g
				return
			}
			g.check.pending = g // a check that had been waiting behind this one reached a gate of its own: it is parked there now
		case <-c.done:
			c.pending = nil
			d.finishCheck(c)
			return
		case <-time.After(1500 * time.Millisecond):
			var parked *checkRun
			for _, o := range d.checks {
				if o != c && o.pending != nil && !o.fin && (parked == nil || o.n < parked.n) {
					parked = o
				}
			}
			if parked != nil {
				d.rec.emit(map[string]any{"ev": "noop", "c": "blocked:" + c.id + ":behind:" + parked.id})
				d.finish(parked)
				continue
			}
			if time.Since(began) > 60*time.Second {
				panic("verif: check " + c.id + " neither reached a gate nor finished within 60s (deadlock?)")
			}
		}
	}
}

func (d *driver) release(c *checkRun, dir Directive) {
	if c.pending == nil {
		return
	}
	g := c.pending
	c.pending = nil
	if dir.Ans == nil {
		dir.Ans = c.defAns
	}
	if pre, ok := c.dirs[itoa(c.gates)]; ok && pre != nil {
		if dir.Fault == "" {
			dir.Fault = pre.Fault
		}
		if pre.Ans != nil {
			dir.Ans = pre.Ans
		}
		if dir.Jwks == "" {
			dir.Jwks = pre.Jwks
		}
		dir.Cancel = dir.Cancel || pre.Cancel
	}
	if dir.Cancel && c.cancel != nil {
		c.cancel()
		d.rec.emit(map[string]any{"ev": "noop", "c": "cancel:" + c.id})
	}
	c.gates++
	d.mu.Lock()
	d.cur = c
	d.mu.Unlock()
	g.release <- dir
	d.wait(c)
}

func (d *driver) finish(c *checkRun) {
	for c.pending != nil {
		d.release(c, Directive{})
	}
}

// ---- requests --------------------------------------------------------------

func (d *driver) browser(id string) *browser {
	if id == "" {
		id = "b0"
	}
	b, ok := d.brs[id]
	if !ok {
		b = &browser{jar: map[string]string{}}
		d.brs[id] = b
	}
	return b
}

func (d *driver) nthSid(ref string) (string, bool) {
	var k int
	if _, err := fmt.Sscanf(ref, "sid:%d", &k); err != nil || k < 1 || k > len(d.issued) {
		return "", false
	}
	return d.issued[k-1], true
}

func (d *driver) start(st *Step) *checkRun {
	c, req := d.prepare(st)
	e := d.env
	d.mu.Lock()
	d.cur = c
	d.mu.Unlock()
	ctx, cancel := context.WithCancel(context.WithValue(context.Background(), checkKey{}, c))
	c.cancel = cancel
	go func() {
		defer close(c.done)
		defer cancel()
		defer func() {
			if r := recover(); r != nil {
				c.pan = r
				c.stack = string(debug.Stack())
			}
		}()
		if d.checkFn != nil {
			c.resp, c.err = d.checkFn(ctx, req)
		} else if len(e.fronts) > 0 {
			c.resp, c.err = e.fronts[c.r%len(e.fronts)].check(ctx, c, req)
		} else {
			c.resp, c.err = e.replicas[c.r%len(e.replicas)].Check(ctx, req)
		}
	}()
	d.wait(c)
	return c
}

type checkKey struct{}

// prepare builds the request of a step, registers the check and logs the req event.
func (d *driver) prepare(st *Step) (*checkRun, *envoy.CheckRequest) {
	e := d.env
	f := e.fspec[st.F]
	if f == nil {
		f = &e.spec.Filters[0]
	}
	br := d.browser(st.B)
	d.nChecks++
	c := &checkRun{id: st.C, n: d.nChecks, f: f.Name, b: st.B, done: make(chan struct{}), defAns: st.Ans, dirs: st.Dirs, expect: st.Expect, r: max(st.R, 0), quiet: st.Shape == "sameSessionParallel"}
	if c.id == "" {
		c.id = fmt.Sprintf("k%d", c.n)
	}
	d.checks[c.id] = c

	// cookie
	nameOf := f
	if st.CookieAs != "" && e.fspec[st.CookieAs] != nil {
		nameOf = e.fspec[st.CookieAs]
	}
	cname := cookieName(nameOf)
	cookieVal, cookieSym := "", "none"
	switch {
	case st.Cookie == "" || st.Cookie == "none":
	case st.Cookie == "jar":
		cookieVal = br.jar[cookieName(f)]
		if st.CookieAs != "" { // the client renames the cookie it holds for filter CookieAs... towards F
			cookieVal = br.jar[cname]
			cname = cookieName(f)
		}
	case st.Cookie == "forged":
		d.forged++
		cookieVal = fmt.Sprintf("forgedSession%040d", d.forged)
		d.rec.bind("forged", cookieVal, fmt.Sprintf("forged%d", d.forged))
	case strings.HasPrefix(st.Cookie, "sid:"):
		if v, ok := d.nthSid(st.Cookie); ok {
			cookieVal = v
		}
		if st.CookieAs != "" {
			cname = cookieName(f)
		}
	case strings.HasPrefix(st.Cookie, "raw:"):
		cookieVal = strings.TrimPrefix(st.Cookie, "raw:")
		d.rec.bind("forged", cookieVal, "forgedRaw")
	}
	if cookieVal != "" {
		cookieSym = d.symSid(cookieVal)
	}

	// path
	path := ""
	pendingCode := ""
	kind := st.Kind
	if kind == "" {
		kind = "app"
	}
	ev := map[string]any{"ev": "req", "n": c.n, "c": c.id, "b": st.B, "f": f.Name, "kind": kind, "cookie": cookieSym,
		"states": []any{}, "codes": []any{}, "url": "none", "qshape": "none", "lenientQuery": false, "expect": st.Expect, "shape": "none",
		"cookieVia": ifs(st.CookieAs != "" && st.CookieAs != f.Name, "renamed", "own")}
	switch kind {
	case "logout":
		path = logoutPath(f)
	case "callback":
		stateVal, stateSym := "", "none"
		switch {
		case st.St == "jar":
			stateVal = br.lastSt
		case strings.HasPrefix(st.St, "sid:"):
			if v, ok := d.nthSid(st.St); ok && d.logins[v] != nil {
				stateVal = d.logins[v].state
			}
		case st.St == "bogus":
			stateVal = "bogusState0000000000000000000000"
		}
		if stateVal != "" {
			if s, ok := d.rec.lookup("st", stateVal); ok {
				stateSym = s
			} else {
				stateSym = "bogus"
			}
		}
		codeVal, codeSym := "", "none"
		switch {
		case st.Code == "jar":
			codeVal = br.lastCode
		case strings.HasPrefix(st.Code, "code:"):
			var k int
			_, _ = fmt.Sscanf(st.Code, "code:%d", &k)
			codeVal = d.codeByIndex(k)
		case st.Code == "bogus":
			codeVal = "bogus-code-value"
		}
		if codeVal != "" {
			if s, ok := d.rec.lookup("code", codeVal); ok {
				codeSym = s
			} else {
				codeSym = "bogus"
			}
		}
		q, states, codes := callbackQuery(st.QShape, stateVal, codeVal, stateSym, codeSym)
		path = callbackPath(f)
		if q != "\x00" {
			path += "?" + q
		}
		ev["states"], ev["codes"] = states, codes
		if codeVal != "" {
			d.codeOwner[codeVal] = nil // filled below once the check exists
			pendingCode = codeVal
		}
		ev["qshape"] = ifs(st.QShape == "", "ok", st.QShape)
		ev["lenientQuery"] = st.QShape == "pctzz" || st.QShape == "semicolon"
	default:
		idx := st.URL
		if idx < 0 || idx >= len(urlPool) {
			idx = 0
		}
		path = urlPool[idx]
		ev["url"] = fmt.Sprintf("u%d", idx)
	}
	envl := d.env.spec.Env
	if st.Env != "" {
		envl = strings.TrimPrefix(st.Env, "plain")
	}
	scheme, host := envelopeAuthority(envl, kind)
	if kind != "app" {
		// the URL of this request, should the service later send the browser back to it
		ev["url"] = d.rec.sym("url", scheme+"://"+host+path)
	} else if scheme != "https" || host != appHost {
		// the same pool URL asked for under another scheme / authority is another URL: the login must come back to exactly it
		sym := fmt.Sprintf("%s@%s", ev["url"], envl)
		d.rec.bind("url", scheme+"://"+host+path, sym)
		ev["url"] = sym
	}
	ev["env"] = ifs(envl == "", "plain", envl)
	// the request id is chosen by the client (x-request-id) and is not a secret: every request of a scenario carries the same one
	headers := map[string]string{chainHdr: f.Name, ":authority": appHost, "x-request-id": "5f1c7b1e-0000-4000-8000-verifverif00"}
	if cookieVal != "" {
		switch st.Decoy {
		case "before":
			decoy := "decoyDecoyDecoy0000000000"
			if v, ok := d.nthSid(st.DecoySid); st.DecoySid != "" && ok {
				decoy = v // another live session's id, planted under a look-alike name (anyone can set a cookie called x__Host-...)
			}
			headers["cookie"] = "theme=dark; x" + cname + "=" + decoy + "; " + cname + "=" + cookieVal + "; other=1"
		case "only":
			// the value is NOT in the session cookie: the request carries no session as far as the service is concerned
			headers["cookie"] = "theme=dark; x" + cname + "=" + cookieVal + "; other=1"
			ev["cookie"] = "none"
			ev["decoyOf"] = cookieSym
		default:
			headers["cookie"] = "theme=dark; " + cname + "=" + cookieVal + "; other=1"
		}
	}
	req := &envoy.CheckRequest{Attributes: &envoy.AttributeContext{Request: &envoy.AttributeContext_Request{
		Http: &envoy.AttributeContext_HttpRequest{Id: "42", Method: "GET", Scheme: scheme, Host: host, Path: path, Headers: headers, Protocol: "HTTP/1.1"},
	}}}
	applyEnvelope(envl, req)
	if st.Shape != "" {
		req = shapeRequest(st.Shape, req, cname)
		ev["shape"] = st.Shape
	}
	d.rec.emit(ev)
	if pendingCode != "" {
		d.codeOwner[pendingCode] = c
	}
	if d.parallel && cookieVal != "" {
		d.mu.Lock()
		if d.bySid == nil {
			d.bySid = map[string]*checkRun{}
		}
		d.bySid[cookieVal] = c
		d.mu.Unlock()
	}
	return c, req
}

func ifs(b bool, x, y string) string {
	if b {
		return x
	}
	return y
}

func (d *driver) codeByIndex(k int) string {
	d.idp.mu.Lock()
	defer d.idp.mu.Unlock()
	want := fmt.Sprintf("code%d", k)
	for v, r := range d.idp.codes {
		if r.sym == want {
			return v
		}
	}
	return ""
}

// callbackQuery renders the query of a callback request in the given shape and
// reports the state and code values it carries, in order, as symbols.
func callbackQuery(shape, st, code, stSym, codeSym string) (string, []any, []any) {
	e := url.QueryEscape
	one := func(s string) []any {
		if s == "none" {
			return []any{}
		}
		return []any{s}
	}
	switch shape {
	case "", "ok":
		q := []string{}
		if st != "" {
			q = append(q, "state="+e(st))
		}
		if code != "" {
			q = append(q, "code="+e(code))
		}
		if len(q) == 0 {
			return "\x00", []any{}, []any{}
		}
		return strings.Join(q, "&"), one(stSym), one(codeSym)
	case "reordered":
		return "session_state=x&code=" + e(code) + "&iss=y&state=" + e(st), one(stSym), one(codeSym)
	case "dupGoodFirst":
		return "state=" + e(st) + "&state=bogusState&code=" + e(code), []any{stSym, "bogus"}, one(codeSym)
	case "dupBadFirst":
		return "state=bogusState&state=" + e(st) + "&code=" + e(code), []any{"bogus", stSym}, one(codeSym)
	case "caseKeys":
		return "State=" + e(st) + "&CODE=" + e(code), []any{}, []any{}
	case "noState":
		return "code=" + e(code), []any{}, one(codeSym)
	case "noCode":
		return "state=" + e(st), one(stSym), []any{}
	case "emptyState":
		return "state=&code=" + e(code), []any{}, one(codeSym)
	case "trailingSpace":
		return "state=" + e(st) + "%20&code=" + e(code), []any{"bogus"}, one(codeSym)
	case "prefixState":
		if len(st) > 4 {
			return "state=" + e(st[:len(st)-1]) + "&code=" + e(code), []any{"bogus"}, one(codeSym)
		}
		return "state=" + e(st) + "&code=" + e(code), one(stSym), one(codeSym)
	case "upperState":
		return "state=" + e(strings.ToUpper(st)) + "&code=" + e(code), []any{ifs(strings.ToUpper(st) == st, stSym, "bogus")}, one(codeSym)
	case "empty":
		return "", []any{}, []any{}
	case "noQuery":
		return "\x00", []any{}, []any{}
	case "pctzz":
		// a foreign parameter with a bad escape: a strict parser sees nothing, a lenient one sees state and code (lenientQuery)
		return "state=" + e(st) + "&code=" + e(code) + "&x=%zz", one(stSym), one(codeSym)
	case "semicolon":
		// ';' as separator: a strict parser sees nothing, lenient ones see state and code, or one parameter with a strange value
		return "state=" + e(st) + ";code=" + e(code), append(one(stSym), "bogus"), one(codeSym)
	case "fragment":
		return "state=" + e(st) + "&code=" + e(code) + "#state=bogus", one(stSym), one(codeSym)
	case "encodedKeys":
		return "%73tate=" + e(st) + "&%63ode=" + e(code), one(stSym), one(codeSym)
	case "errorDenied":
		return "error=access_denied&state=" + e(st), one(stSym), []any{}
	case "errorRetriable":
		return "error=login_required&state=" + e(st), one(stSym), []any{}
	case "errorWithDescription":
		return "error=server_error&error_description=try%20again&error_uri=https%3A%2F%2Fidp.example%2Fe&state=" + e(st), one(stSym), []any{}
	case "errorNoState":
		return "error=access_denied", []any{}, []any{}
	}
	panic("unknown qshape " + shape)
}

// ---- responses -------------------------------------------------------------

func (d *driver) finishCheck(c *checkRun) {
	if c.fin {
		return
	}
	c.fin = true
	e := d.env
	f := e.fspec[c.f]
	ev := map[string]any{"ev": "resp", "n": c.n, "c": c.id, "f": c.f, "b": c.b, "expect": c.expect}
	none := map[string]any{"ex": false, "kind": "none", "raw": "", "params": map[string]any{}, "sym": "none", "parseOK": true, "fragment": false, "ownRetained": true}
	ev["loc"], ev["setCookie"], ev["upstream"], ev["okExtra"], ev["leaks"] = none, []any{}, []any{}, []any{}, []any{}
	ev["code"], ev["http"], ev["noCache"], ev["body"], ev["wellFormed"] = -1, 0, false, "none", true
	switch {
	case c.pan != nil:
		ev["kind"] = "panic"
		ev["panic"] = fmt.Sprint(c.pan)
		ev["stack"] = firstLines(c.stack, 14)
	case c.err != nil:
		ev["kind"] = "grpcError"
		ev["error"] = c.err.Error()
	case c.resp == nil:
		ev["kind"] = "nilResponse"
		ev["wellFormed"] = false
	default:
		d.describe(c, f, ev)
	}
	d.rec.emit(ev)
	d.checkStable(c)
}

func firstLines(s string, n int) string {
	l := strings.Split(s, "\n")
	if len(l) > n {
		l = l[:n]
	}
	return strings.Join(l, "\n")
}

func (d *driver) describe(c *checkRun, f *FilterSpec, ev map[string]any) {
	r := c.resp
	br := d.browser(c.b)
	code := int(r.GetStatus().GetCode())
	ev["code"] = code
	ser := protojson.MarshalOptions{}.Format(r)
	// the proxy decides on the status code alone: code 0 (also: no status at all) lets the request through, whatever else the answer carries
	if ok := r.GetOkResponse(); code == 0 {
		ev["kind"] = "ok"
		ev["wellFormed"] = r.Status != nil && r.GetDeniedResponse() == nil
		up := []any{}
		allow := map[string]bool{}
		for _, h := range ok.GetHeaders() {
			k, v := h.GetHeader().GetKey(), h.GetHeader().GetValue()
			if h.GetHeader().GetRawValue() != nil {
				v = string(h.GetHeader().GetRawValue())
			}
			pre, tok := "", v
			// split off the longest known preamble
			for _, p := range []string{f.IDPreamble, f.ATPreamble} {
				if p != "" && strings.HasPrefix(v, p+" ") && len(p) >= len(pre) {
					pre, tok = p, strings.TrimPrefix(v, p+" ")
				}
			}
			sym := "raw"
			forwardable := false // only ID and access tokens may travel upstream; anything else in a header value is judged as a leak
			if s, ok := d.rec.lookup("id", tok); ok {
				sym, forwardable = s, true
			} else if s, ok := d.rec.lookup("at", tok); ok {
				sym, forwardable = s, true
			} else if s, ok := d.rec.lookup("rt", tok); ok {
				sym = s
			} else if s, ok := d.rec.lookup("id", v); ok {
				sym, pre, forwardable = s, "", true
			} else if s, ok := d.rec.lookup("at", v); ok {
				sym, pre, forwardable = s, "", true
			}
			up = append(up, map[string]any{"k": k, "kl": strings.ToLower(k), "pre": pre, "tok": sym,
				"append": h.GetAppend().GetValue() || h.GetAppendAction() != 0 && h.GetAppendAction().String() != "OVERWRITE_IF_EXISTS_OR_ADD"})
			if forwardable {
				allow[tok] = true
				allow[v] = true
			}
		}
		sort.Slice(up, func(i, j int) bool {
			return up[i].(map[string]any)["k"].(string) < up[j].(map[string]any)["k"].(string)
		})
		ev["upstream"] = up
		// what an OK answer ADDS to the upstream request besides headers: query parameters. (Headers to remove add nothing;
		// response headers go to the browser and are scanned for secrets like every answer; dynamic metadata and the status
		// message stay inside Envoy.)
		extra := []any{}
		if len(ok.GetQueryParametersToSet()) > 0 {
			extra = append(extra, "queryParametersToSet")
		}
		ev["okExtra"] = extra
		// whatever is outside the upstream header values must be marker-free
		ev["leaks"] = strs(d.rec.leaks(ser, allow))
		return
	}
	den := r.GetDeniedResponse()
	ev["kind"] = "denied"
	// a denial is well-formed with a denied body or with no body at all; an OK body under a non-OK status is not
	ev["wellFormed"] = code != 0 && r.Status != nil && r.GetOkResponse() == nil
	if den == nil {
		// a bare status (e.g. "no chains matched")
		ev["kind"] = "bare"
		ev["leaks"] = strs(d.rec.leaks(ser, nil))
		return
	}
	ev["http"] = int(den.GetStatus().GetCode())
	ev["body"] = bodyClass(den.GetBody())
	cc, pragma := false, false
	cookies := []any{}
	for _, h := range den.GetHeaders() {
		k, v := strings.ToLower(h.GetHeader().GetKey()), h.GetHeader().GetValue()
		switch k {
		case "cache-control":
			cc = strings.Contains(v, "no-cache") || strings.Contains(v, "no-store")
		case "pragma":
			pragma = strings.Contains(v, "no-cache")
		case "location":
			ev["loc"] = d.describeLocation(f, v)
			br.lastLoc = v
		case "set-cookie":
			ck := d.describeCookie(f, v, br)
			cookies = append(cookies, ck)
		}
	}
	ev["noCache"] = cc || pragma // "carries no-cache directives": Cache-Control (HTTP/1.1) or Pragma (HTTP/1.0) - either says it
	ev["setCookie"] = cookies
	ev["leaks"] = strs(d.rec.leaks(ser, nil))
	// ghost: an authorize answer that issues a session
	if loc, ok := ev["loc"].(map[string]any); ok && loc["kind"] == "authorize" && len(cookies) > 0 {
		ck := cookies[len(cookies)-1].(map[string]any)
		if raw, _ := ck["_value"].(string); raw != "" && ck["deleted"] == false {
			u, _ := url.Parse(br.lastLoc)
			q := u.Query()
			d.logins[raw] = &login{sidSym: ck["sid"].(string), f: c.f, state: q.Get("state"), nonce: q.Get("nonce"),
				challenge: q.Get("code_challenge"), clientID: q.Get("client_id"), redirect: q.Get("redirect_uri")}
		}
	}
	for _, ck := range cookies {
		delete(ck.(map[string]any), "_value")
	}
}

func bodyClass(b string) string {
	switch {
	case b == "":
		return "none"
	case strings.HasPrefix(b, "There was an error accessing your session data"):
		return "sessionError"
	case strings.HasPrefix(b, "Oops, your session has expired"):
		return "sessionExpired"
	}
	return "other"
}

// describeCookie parses a Set-Cookie value the way a user agent does (RFC 6265 5.2).
func (d *driver) describeCookie(f *FilterSpec, v string, br *browser) map[string]any {
	parts := strings.Split(v, ";")
	nv := parts[0]
	name, value := nv, ""
	if i := strings.Index(nv, "="); i >= 0 {
		name, value = strings.TrimSpace(nv[:i]), strings.TrimSpace(nv[i+1:])
	}
	attrs, attrsL := []any{}, []any{}
	deleted, hasDomain := false, false
	for _, a := range parts[1:] {
		a = strings.TrimSpace(a)
		if a == "" {
			continue
		}
		attrs = append(attrs, a)
		la := strings.ToLower(a)
		attrsL = append(attrsL, strings.ReplaceAll(la, " ", ""))
		if la == "max-age=0" || strings.HasPrefix(la, "max-age=-") {
			deleted = true
		}
		if strings.HasPrefix(la, "domain") {
			hasDomain = true
		}
	}
	nameSym := "other"
	for _, ff := range d.env.spec.Filters {
		if name == cookieName(&ff) {
			nameSym = "own:" + ff.Name
			if ff.Name == f.Name {
				break
			}
		}
	}
	if name == cookieName(f) {
		nameSym = "own:" + f.Name
	}
	out := map[string]any{"name": nameSym, "nameRaw": name, "attrs": attrs, "attrsL": attrsL, "deleted": deleted, "sid": "none", "_value": "", "fresh": false,
		"hostPrefix": strings.HasPrefix(name, "__Host-"), "hasDomain": hasDomain}
	if deleted {
		delete(br.jar, name)
		return out
	}
	out["sid"] = d.symSid(value)
	out["_value"] = value
	out["fresh"] = !contains(d.issued, value)
	br.jar[name] = value
	if !contains(d.issued, value) {
		d.issued = append(d.issued, value)
	}
	return out
}

func contains(l []string, s string) bool {
	for _, x := range l {
		if x == s {
			return true
		}
	}
	return false
}

// describeLocation parses a Location with net/url, independently of how the service assembled it.
func (d *driver) describeLocation(f *FilterSpec, v string) map[string]any {
	out := map[string]any{"ex": true, "kind": "other", "raw": "", "params": map[string]any{}, "sym": "none", "parseOK": true, "fragment": false, "ownRetained": true}
	if s := d.symURL(v); !strings.HasPrefix(s, "rawurl:") {
		out["kind"], out["sym"] = "url", s
		return out
	}
	if v == d.logoutRedirect(f) {
		out["kind"] = "endsession"
		return out
	}
	u, err := url.Parse(v)
	if err != nil {
		out["parseOK"] = false
		out["raw"] = v
		return out
	}
	au, _ := url.Parse(d.authzEndpoint(f))
	if u.Scheme == au.Scheme && u.Host == au.Host && u.Path == au.Path {
		out["kind"] = "authorize"
		// the endpoint's own query is retained when every one of its '&'-separated components is still there, as written
		// (or written in an equivalent percent-encoding); what remains must be exactly the parameters of the request
		rest, retained := removeOwnQuery(u.RawQuery, ifs(f.Discovery, "", f.AuthzQuery))
		out["ownRetained"] = retained
		q, qerr := url.ParseQuery(rest)
		out["parseOK"] = qerr == nil
		params := map[string]any{}
		for k, vals := range q {
			l := []any{}
			for _, x := range vals {
				switch k {
				case "client_id":
					l = append(l, d.symClientIDFor(x, f.Name))
				case "redirect_uri":
					l = append(l, d.symRedirect(x))
				case "state":
					l = append(l, d.rec.sym("st", x))
				case "nonce":
					l = append(l, d.rec.sym("n", x))
				case "code_challenge":
					l = append(l, d.rec.challengeSym(x))
				case "scope":
					l = append(l, strs(strings.Split(x, " ")))
				default:
					l = append(l, x)
				}
			}
			params[k] = l
		}
		out["params"] = params
		out["fragment"] = u.Fragment != ""
		return out
	}
	out["raw"] = v
	return out
}

// ---- request envelopes -----------------------------------------------------------------------------------------------

// envelopeAuthority gives the scheme and Host a request of the envelope carries. A callback keeps the authority of the
// configured callback URI (the service recognises callbacks by it).
func envelopeAuthority(env, kind string) (string, string) {
	switch env {
	case "http":
		return "http", appHost
	case "port443":
		if kind != "callback" {
			return "https", appHost + ":443"
		}
	case "port8443":
		// the application is (also) served on another port: another origin as far as URLs go, the same host for cookies
		if kind != "callback" {
			return "https", appHost + ":8443"
		}
	}
	return "https", appHost
}

// applyEnvelope dresses a request in things that do not change what it asks for: another method, headers set by proxies,
// browsers and scripts, peer addresses that are not sockets. Every property is judged as for the plain request.
func applyEnvelope(env string, req *envoy.CheckRequest) {
	h := req.Attributes.Request.Http
	switch env {
	case "", "http", "port443", "port8443":
	case "post":
		h.Method = "POST"
		h.Headers["content-type"] = "application/x-www-form-urlencoded"
		h.Headers["content-length"] = "0"
	case "head":
		h.Method = "HEAD"
	case "preflight":
		h.Method = "OPTIONS"
		h.Headers["origin"] = "https://evil.example"
		h.Headers["access-control-request-method"] = "GET"
		h.Headers["access-control-request-headers"] = "authorization"
	case "xhr":
		h.Headers["x-requested-with"] = "XMLHttpRequest"
		h.Headers["sec-fetch-mode"] = "cors"
		h.Headers["sec-fetch-site"] = "same-origin"
		h.Headers["accept"] = "application/json"
	case "proxied":
		h.Headers["x-forwarded-proto"] = "http"
		h.Headers["x-forwarded-host"] = "evil.example"
		h.Headers["x-forwarded-for"] = "203.0.113.7"
		h.Headers["forwarded"] = "for=203.0.113.7;proto=http;host=evil.example"
		h.Headers["x-envoy-original-path"] = "/healthz?probe=1"
		h.Headers["x-original-url"] = "/public/index.html"
		h.Headers["x-rewrite-url"] = "/static/site.css"
	case "peers":
		req.Attributes.Source = &envoy.AttributeContext_Peer{Address: &corev3.Address{Address: &corev3.Address_Pipe{Pipe: &corev3.Pipe{Path: "/run/envoy.sock"}}}}
		req.Attributes.Destination = &envoy.AttributeContext_Peer{Address: &corev3.Address{Address: &corev3.Address_EnvoyInternalAddress{
			EnvoyInternalAddress: &corev3.EnvoyInternalAddress{AddressNameSpecifier: &corev3.EnvoyInternalAddress_ServerListenerName{ServerListenerName: "internal"}}}}}
	case "peersEmpty":
		req.Attributes.Source = &envoy.AttributeContext_Peer{Address: &corev3.Address{}}
		req.Attributes.Destination = &envoy.AttributeContext_Peer{}
		req.Attributes.ContextExtensions = map[string]string{"virtual_host": "app"}
		req.Attributes.MetadataContext = &corev3.Metadata{}
	default:
		panic("unknown request envelope " + env)
	}
}

// quietLogger is the logger cmd/main.go uses (tetratelabs/log), writing to /dev/null instead of the standard output.
var (
	devnullOnce sync.Once
	devnull     *os.File
)

func quietLogger() telemetry.Logger {
	devnullOnce.Do(func() { devnull, _ = os.OpenFile(os.DevNull, os.O_WRONLY, 0) })
	if devnull == nil {
		return tlog.New()
	}
	saved := os.Stdout
	os.Stdout = devnull
	l := tlog.New() // (keeps the writer it finds in os.Stdout now)
	os.Stdout = saved
	return l
}

// removeOwnQuery takes the components of the endpoint's own query out of a raw query (each once) and says whether all were found.
func removeOwnQuery(raw, own string) (string, bool) {
	comps := []string{}
	if raw != "" {
		comps = strings.Split(raw, "&")
	}
	all := true
	if own != "" {
		for _, want := range strings.Split(own, "&") {
			found := false
			for i, c := range comps {
				same := c == want
				if !same {
					if a, err1 := url.QueryUnescape(c); err1 == nil {
						if b, err2 := url.QueryUnescape(want); err2 == nil && a == b {
							same = true
						}
					}
				}
				if same {
					comps = append(comps[:i], comps[i+1:]...)
					found = true
					break
				}
			}
			all = all && found
		}
	}
	return strings.Join(comps, "&"), all
}
